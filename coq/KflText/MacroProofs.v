(* Proofs about the model of ExpandMacros (Macro.v): the pass of one macro is characterised on
   the maximal [\w.]-runs of the text; passes of different macros commute and each is idempotent
   under the side conditions [table_ok]; string literals are copied; only runs that are exactly
   a macro name are replaced. *)
Require Import V.Base.Prelude V.KflText.Macro.
From Coq Require Import Permutation.
Local Open Scope bool_scope.

(* ------------------------------------------------------------------ bytes *)
Lemma beqb_eq a b : Byte.eqb a b = true <-> a = b.
Proof. split; [apply Byte.byte_dec_bl | apply Byte.byte_dec_lb]. Qed.

Lemma beqb_refl a : Byte.eqb a a = true.
Proof. apply beqb_eq. reflexivity. Qed.

Lemma bytes_eqb_eq a b : bytes_eqb a b = true <-> a = b.
Proof.
  unfold bytes_eqb. revert b. induction a as [|x a IH]; intros [|y b]; cbn [list_eqb]; split; intro H;
    try reflexivity; try discriminate.
  - apply andb_true_iff in H. destruct H as [H1 H2]. apply beqb_eq in H1. apply IH in H2. congruence.
  - injection H as -> ->. rewrite beqb_refl. cbn [andb]. apply IH. reflexivity.
Qed.

Lemma bytes_eqb_refl a : bytes_eqb a a = true.
Proof. apply bytes_eqb_eq. reflexivity. Qed.

Lemma strip_prefix_spec n q r : strip_prefix n q = Some r <-> q = n ++ r.
Proof.
  revert q. induction n as [|a n IH]; intros q; cbn [strip_prefix app].
  - split; intro H; [injection H as ->; reflexivity | subst; reflexivity].
  - destruct q as [|b q].
    + split; intro H; discriminate.
    + destruct (Byte.eqb a b) eqn:E.
      * apply beqb_eq in E. subst b. rewrite IH. split; intro H; [subst; reflexivity | injection H as ->; reflexivity].
      * split; intro H; [discriminate|]. injection H as -> _. rewrite beqb_refl in E. discriminate.
Qed.

Lemma strip_prefix_self n r : strip_prefix n (n ++ r) = Some r.
Proof. apply strip_prefix_spec. reflexivity. Qed.

(* ------------------------------------------------------------------ the look-ahead automaton *)
Lemma lrun_app s a b : lrun s (a ++ b) = lrun (lrun s a) b.
Proof. unfold lrun. apply fold_left_app. Qed.

Lemma lrun_cons s b q : lrun s (b :: q) = lrun (lstep s b) q.
Proof. reflexivity. Qed.

Definition flip (s : lst) : lst :=
  match s with Out => Str | Str => Out | OutEsc => StrEsc | StrEsc => OutEsc end.

Lemma lstep_flip s b : lstep (flip s) b = flip (lstep s b).
Proof. destruct s; cbn [flip lstep]; destruct (Byte.eqb b QUOTE); destruct (Byte.eqb b BSLASH); reflexivity. Qed.

Lemma lrun_flip s q : lrun (flip s) q = flip (lrun s q).
Proof. revert s. induction q as [|b q IH]; intro s; [reflexivity|]. rewrite !lrun_cons, lstep_flip. apply IH. Qed.

Lemma lst_eqb_eq a b : lst_eqb a b = true <-> a = b.
Proof. destruct a, b; cbn [lst_eqb]; split; intro H; try reflexivity; discriminate. Qed.

Lemma suffix_ok_iff q : suffix_ok q = true <-> lrun Out q = Out.
Proof. unfold suffix_ok. apply lst_eqb_eq. Qed.

(* from inside a literal the rest of an accepted text is not accepted *)
Lemma lrun_Str_of_ok q : suffix_ok q = true -> lrun Str q = Str.
Proof. intro H. apply suffix_ok_iff in H. change Str with (flip Out). rewrite lrun_flip, H. reflexivity. Qed.

(* ------------------------------------------------------------------ runs of [\w.] *)
Lemma is_word_blocker b : is_word b = true -> is_blocker b = true.
Proof. unfold is_blocker. intros ->. reflexivity. Qed.

Lemma name_ok_inv n : name_ok n = true -> n <> [] /\ Forall (fun b => is_blocker b = true) n.
Proof.
  unfold name_ok. destruct n as [|a n]; [discriminate|]. intro H. split; [discriminate|].
  rewrite forallb_forall in H. apply Forall_forall. intros b Hb. apply is_word_blocker, H, Hb.
Qed.

(* two decompositions of a text into a maximal run and a rest coincide *)
Lemma run_unique w n r r' :
  Forall (fun b => is_blocker b = true) w -> Forall (fun b => is_blocker b = true) n ->
  next_free r = true -> next_free r' = true -> w ++ r = n ++ r' -> w = n /\ r = r'.
Proof.
  revert n. induction w as [|a w IH]; intros n Hw Hn Hr Hr' E.
  - destruct n as [|b n]; [split; [reflexivity|exact E]|].
    cbn [app] in E. subst r. cbn [next_free] in Hr. inversion Hn as [|? ? Hb _]. rewrite Hb in Hr. discriminate.
  - destruct n as [|b n].
    + cbn [app] in E. subst r'. cbn [next_free] in Hr'. inversion Hw as [|? ? Ha _]. rewrite Ha in Hr'. discriminate.
    + cbn [app] in E. injection E as -> E. inversion Hw; inversion Hn; subst.
      destruct (IH n) as [-> ->]; auto.
Qed.

Lemma match_here_true n q : match_here n q = true ->
  exists rest, q = n ++ rest /\ next_free rest = true /\ suffix_ok rest = true.
Proof.
  unfold match_here. destruct n as [|a n']; [discriminate|].
  destruct (strip_prefix (a :: n') q) as [rest|] eqn:S; [|discriminate].
  intro M. apply andb_true_iff in M. destruct M as [M1 M2]. apply strip_prefix_spec in S. exists rest. auto.
Qed.

Lemma match_here_intro n r : n <> [] -> next_free r = true -> suffix_ok r = true -> match_here n (n ++ r) = true.
Proof.
  intros Hn H1 H2. unfold match_here. destruct n as [|a n']; [congruence|].
  rewrite strip_prefix_self, H1, H2. reflexivity.
Qed.

Section OnePass.
  Variable n d : bytes.
  Hypothesis Hn : name_ok n = true.

  Lemma match_here_free b r : is_blocker b = false -> match_here n (b :: r) = false.
  Proof.
    intro Hb. unfold match_here. destruct n as [|a n'] eqn:En; [reflexivity|].
    cbn [strip_prefix]. destruct (Byte.eqb a b) eqn:E; [|reflexivity].
    apply beqb_eq in E. subst b. destruct (name_ok_inv _ Hn) as [_ F]. inversion F as [|? ? Ha _]. congruence.
  Qed.

  Lemma pass_nil k p : pass n d k p [] = [].
  Proof. destruct k; reflexivity. Qed.

  (* a byte outside [\w.] is copied *)
  Lemma pass_sep p b r : is_blocker b = false -> pass n d 0 p (b :: r) = b :: pass n d 0 false r.
  Proof.
    intro Hb. cbn [pass]. rewrite (match_here_free b r Hb), andb_false_r, Hb. reflexivity.
  Qed.

  (* dropping the rest of a matched name *)
  Lemma pass_skip x : forall k p r, length x = k -> x <> [] -> Forall (fun b => is_blocker b = true) x ->
    pass n d k p (x ++ r) = pass n d 0 true r.
  Proof.
    induction x as [|a x IH]; intros k p r Hk Hx Hf; [congruence|].
    destruct k as [|k]; [discriminate|]. cbn [app pass]. inversion Hf as [|? ? Ha Hf']; subst. rewrite Ha.
    destruct x as [|a' x'].
    - cbn [length] in Hk. injection Hk as <-. reflexivity.
    - apply IH; [cbn [length] in *; lia | discriminate | assumption].
  Qed.

  (* behind a byte of [\w.] nothing matches until the run ends *)
  Lemma pass_blocked w : forall r, Forall (fun b => is_blocker b = true) w ->
    pass n d 0 true (w ++ r) = w ++ pass n d 0 true r.
  Proof.
    induction w as [|a w IH]; intros r Hf; [reflexivity|].
    inversion Hf as [|? ? Ha Hf']; subst. cbn [app pass negb andb]. rewrite Ha, IH by assumption. reflexivity.
  Qed.

  Lemma pass_true_free r : next_free r = true -> pass n d 0 true r = pass n d 0 false r.
  Proof.
    destruct r as [|b r]; [reflexivity|]. cbn [next_free]. intro H. apply negb_true_iff in H.
    rewrite !pass_sep by assumption. reflexivity.
  Qed.

  (* a maximal run of [\w.] is replaced iff it is exactly the name and the rest of the text is
     accepted by the look-ahead; otherwise it is copied *)
  Lemma pass_run w r : w <> [] -> Forall (fun b => is_blocker b = true) w -> next_free r = true ->
    pass n d 0 false (w ++ r) = (if bytes_eqb w n && suffix_ok r then d else w) ++ pass n d 0 false r.
  Proof.
    intros Hw Hf Hr. destruct w as [|a w]; [congruence|]. clear Hw.
    destruct (name_ok_inv _ Hn) as [Hne Hnf].
    cbn [app pass negb andb]. destruct (match_here n (a :: w ++ r)) eqn:M.
    - apply match_here_true in M. destruct M as (rest & S & M1 & M2).
      destruct (run_unique (a :: w) n r rest Hf Hnf Hr M1 S) as [E1 E2]. subst rest.
      rewrite E1, bytes_eqb_refl, M2. cbn [andb]. f_equal.
      pose proof (Forall_inv Hf) as Ha; pose proof (Forall_inv_tail Hf) as Hf'; cbn beta in Ha.
      assert (L : Nat.pred (length n) = length w) by (rewrite <- E1; reflexivity).
      rewrite L.
      destruct w as [|a' w'].
      + cbn [length app]. rewrite Ha. apply pass_true_free, Hr.
      + rewrite (pass_skip (a' :: w') (length (a' :: w')) (is_blocker a) r);
          [apply pass_true_free, Hr | reflexivity | discriminate | assumption].
    - pose proof (Forall_inv Hf) as Ha; pose proof (Forall_inv_tail Hf) as Hf'; cbn beta in Ha. rewrite Ha, pass_blocked by assumption. rewrite pass_true_free by assumption.
      destruct (bytes_eqb (a :: w) n && suffix_ok r) eqn:C; [|reflexivity].
      apply andb_true_iff in C. destruct C as [C1 C2]. apply bytes_eqb_eq in C1.
      exfalso. change (a :: w ++ r) with ((a :: w) ++ r) in M. rewrite C1 in M.
      rewrite (match_here_intro n r Hne Hr C2) in M. discriminate.
  Qed.
End OnePass.

(* ------------------------------------------------------------------ induction over the runs of a text *)
Fixpoint span_run (q : bytes) : bytes * bytes :=
  match q with
  | [] => ([], [])
  | b :: r => if is_blocker b then let '(w, r') := span_run r in (b :: w, r') else ([], q)
  end.

Lemma span_run_spec q : let '(w, r) := span_run q in
  q = w ++ r /\ Forall (fun b => is_blocker b = true) w /\ next_free r = true.
Proof.
  induction q as [|b q IH]; cbn [span_run].
  - repeat split; constructor.
  - destruct (is_blocker b) eqn:Hb.
    + destruct (span_run q) as [w r]. destruct IH as (-> & F & N). repeat split; [constructor; assumption | assumption].
    + repeat split; [constructor | cbn [next_free]; rewrite Hb; reflexivity].
Qed.

Lemma runs_ind (P : bytes -> Prop) :
  P [] ->
  (forall b r, is_blocker b = false -> P r -> P (b :: r)) ->
  (forall w r, w <> [] -> Forall (fun b => is_blocker b = true) w -> next_free r = true -> P r -> P (w ++ r)) ->
  forall q, P q.
Proof.
  intros H0 Hs Hr q. remember (length q) as k eqn:Hk. revert q Hk.
  induction k as [k IH] using lt_wf_ind. intros q Hk. destruct q as [|b q]; [exact H0|].
  destruct (is_blocker b) eqn:Hb.
  - pose proof (span_run_spec (b :: q)) as S. cbn [span_run] in S. rewrite Hb in S.
    destruct (span_run q) as [w r] eqn:Sq. destruct S as (E & F & N). rewrite E.
    apply Hr; [discriminate | assumption | assumption |].
    apply (IH (length r)); [|reflexivity]. subst k. rewrite E, app_length. cbn [length]. lia.
  - apply Hs; [assumption|]. apply (IH (length q)); [subst k; cbn [length]; lia | reflexivity].
Qed.

(* ------------------------------------------------------------------ one macro of a good table *)
Lemma neutral_spec n d : neutral n d = true -> forall s, lrun s d = lrun s n.
Proof.
  unfold neutral, all_lst. cbn [forallb]. intro H. repeat (apply andb_true_iff in H; destruct H as [?H H]).
  intros []; apply lst_eqb_eq; assumption.
Qed.

Lemma macro_ok_inv m : macro_ok m = true ->
  name_ok (fst m) = true /\ no_bslash (snd m) = true /\ head_free (snd m) = true /\ last_free (snd m) = true
  /\ neutral (fst m) (snd m) = true.
Proof.
  unfold macro_ok. intro H. repeat (apply andb_true_iff in H; destruct H as [H ?H]). auto.
Qed.

Lemma expand1_sep m b r : name_ok (fst m) = true -> is_blocker b = false -> expand1 m (b :: r) = b :: expand1 m r.
Proof. intros Hn Hb. unfold expand1. apply pass_sep; assumption. Qed.

Lemma expand1_run m w r : name_ok (fst m) = true -> w <> [] -> Forall (fun b => is_blocker b = true) w ->
  next_free r = true ->
  expand1 m (w ++ r) = (if bytes_eqb w (fst m) && suffix_ok r then snd m else w) ++ expand1 m r.
Proof. intros. unfold expand1. apply pass_run; assumption. Qed.

Lemma expand1_nil m : expand1 m [] = [].
Proof. reflexivity. Qed.

(* the look-ahead automaton does not see the difference between a text and its expansion *)
Lemma lrun_expand1 m : macro_ok m = true -> forall q s, lrun s (expand1 m q) = lrun s q.
Proof.
  intro Hm. destruct (macro_ok_inv m Hm) as (Hn & _ & _ & _ & Hne).
  intro q. pattern q. apply runs_ind; clear q.
  - reflexivity.
  - intros b r Hb IH s. rewrite expand1_sep by assumption. rewrite !lrun_cons. apply IH.
  - intros w r Hw Hf Hr IH s. rewrite expand1_run by assumption. rewrite !lrun_app, IH.
    destruct (bytes_eqb w (fst m) && suffix_ok r) eqn:C; [|reflexivity].
    apply andb_true_iff in C. destruct C as [C _]. apply bytes_eqb_eq in C. subst w.
    rewrite (neutral_spec _ _ Hne). reflexivity.
Qed.

Lemma suffix_ok_expand1 m q : macro_ok m = true -> suffix_ok (expand1 m q) = suffix_ok q.
Proof. intro Hm. unfold suffix_ok. rewrite lrun_expand1 by assumption. reflexivity. Qed.

Lemma next_free_expand1 m r : name_ok (fst m) = true -> next_free r = true -> next_free (expand1 m r) = true.
Proof.
  intros Hn H. destruct r as [|b r]; [reflexivity|]. cbn [next_free] in H. apply negb_true_iff in H.
  rewrite expand1_sep by assumption. cbn [next_free]. rewrite H. reflexivity.
Qed.

(* ------------------------------------------------------------------ inert texts are copied *)
Lemma last_free_cons b c t : last_free (b :: c :: t) = last_free (c :: t).
Proof. reflexivity. Qed.

Lemma last_free_not_all t n2 : last_free t = true -> Forall (fun b => is_blocker b = true) (t ++ n2) -> False.
Proof.
  intros H F. induction t as [|b t IH]; [discriminate|].
  destruct t as [|c t].
  - cbn [last_free] in H. apply negb_true_iff in H. pose proof (Forall_inv F) as Hb. cbn beta in Hb. congruence.
  - apply IH; [exact H | exact (Forall_inv_tail F)].
Qed.

(* strip_prefix on a text followed by more text *)
Lemma strip_prefix_app n t X :
  strip_prefix n (t ++ X) =
  match strip_prefix n t with
  | Some rest => Some (rest ++ X)
  | None => strip_prefix n (t ++ X)
  end.
Proof.
  destruct (strip_prefix n t) as [rest|] eqn:S; [|reflexivity].
  apply strip_prefix_spec in S. subst t. rewrite <- app_assoc. apply strip_prefix_self.
Qed.

Lemma strip_prefix_beyond n t X rest : strip_prefix n t = None -> strip_prefix n (t ++ X) = Some rest ->
  exists n2, n = t ++ n2.
Proof.
  revert t. induction n as [|a n IH]; intros t H1 H2; [discriminate|].
  destruct t as [|b t]; [exists (a :: n); reflexivity|].
  cbn [strip_prefix app] in *. destruct (Byte.eqb a b) eqn:E; [|discriminate].
  apply beqb_eq in E. subst b. destruct (IH t H1 H2) as [n2 ->]. exists n2. reflexivity.
Qed.

Section Inert.
  Variable n d : bytes.
  Hypothesis Hn : name_ok n = true.

  Lemma inert_pass X : suffix_ok X = true -> forall t p, last_free t = true -> inert n p t = true ->
    pass n d 0 p (t ++ X) = t ++ pass n d 0 false X.
  Proof.
    intros HX. destruct (name_ok_inv _ Hn) as [Hne Hnf].
    assert (step : forall b t p, last_free (b :: t) = true -> inert n p (b :: t) = true ->
                   negb p && match_here n ((b :: t) ++ X) = false).
    { intros b t p Hl Hi. destruct p; [reflexivity|]. cbn [negb andb].
      destruct (match_here n ((b :: t) ++ X)) eqn:M; [|reflexivity]. exfalso.
      apply match_here_true in M. destruct M as (rest & S & M1 & M2).
      apply strip_prefix_spec in S. rewrite strip_prefix_app in S.
      cbn [inert] in Hi. apply andb_true_iff in Hi. destruct Hi as [Hi _].
      destruct (strip_prefix n (b :: t)) as [rest0|] eqn:S0.
      - injection S as <-. destruct rest0 as [|c rest0].
        + cbn [next_free] in Hi. discriminate.
        + cbn [app next_free] in M1. cbn [next_free] in Hi. rewrite M1 in Hi.
          apply lst_eqb_eq in Hi. apply suffix_ok_iff in M2. rewrite lrun_app, Hi, (lrun_Str_of_ok X HX) in M2. discriminate.
      - destruct (strip_prefix_beyond _ _ _ _ S0 S) as [n2 En].
        rewrite En in Hnf. exact (last_free_not_all _ n2 Hl Hnf). }
    induction t as [|b t IH]; intros p Hl Hi; [discriminate|].
    pose proof (step b t p Hl Hi) as St. cbn [app] in St |- *. cbn [pass]. rewrite St.
    destruct t as [|c t].
    - cbn [last_free] in Hl. apply negb_true_iff in Hl. rewrite Hl. reflexivity.
    - f_equal. apply IH; [exact Hl|]. cbn [inert] in Hi. apply andb_true_iff in Hi. apply Hi.
  Qed.
End Inert.

(* ------------------------------------------------------------------ a table satisfying the side conditions *)
Lemma table_ok_inv T : table_ok T = true ->
  nodup_names T = true /\ (forall m, In m T -> macro_ok m = true)
  /\ (forall m m', In m T -> In m' T -> inert (fst m) false (snd m') = true).
Proof.
  unfold table_ok. intro H. apply andb_true_iff in H. destruct H as [H H3]. apply andb_true_iff in H. destruct H as [H1 H2].
  split; [exact H1|]. split.
  - rewrite forallb_forall in H2. exact H2.
  - intros m m' Hm Hm'. rewrite forallb_forall in H3. specialize (H3 m Hm). rewrite forallb_forall in H3. exact (H3 m' Hm').
Qed.

Lemma nodup_names_inj T : nodup_names T = true -> forall m1 m2, In m1 T -> In m2 T -> fst m1 = fst m2 -> m1 = m2.
Proof.
  induction T as [|m T IH]; intros H m1 m2 H1 H2 E; [contradiction|].
  cbn [nodup_names] in H. apply andb_true_iff in H. destruct H as [Hx Hr]. apply negb_true_iff in Hx.
  assert (notin : forall m', In m' T -> fst m = fst m' -> False).
  { intros m' Hin Ef. assert (existsb (fun m' => bytes_eqb (fst m) (fst m')) T = true); [|congruence].
    apply existsb_exists. exists m'. split; [exact Hin|]. apply bytes_eqb_eq. exact Ef. }
  destruct H1 as [<-|H1], H2 as [<-|H2].
  - reflexivity.
  - exfalso. exact (notin m2 H2 E).
  - exfalso. exact (notin m1 H1 (eq_sym E)).
  - exact (IH Hr m1 m2 H1 H2 E).
Qed.

Section Table.
  Variable T : list macro.
  Hypothesis HT : table_ok T = true.

  Let Hok : forall m, In m T -> macro_ok m = true := proj1 (proj2 (table_ok_inv T HT)).
  Let Hinert : forall m m', In m T -> In m' T -> inert (fst m) false (snd m') = true := proj2 (proj2 (table_ok_inv T HT)).

  Lemma name_ok_in m : In m T -> name_ok (fst m) = true.
  Proof. intro H. exact (proj1 (macro_ok_inv m (Hok m H))). Qed.

  (* a definition in front of an accepted text is copied by the pass of any macro of the table *)
  Lemma expand1_def m m' X : In m T -> In m' T -> suffix_ok X = true ->
    expand1 m (snd m' ++ X) = snd m' ++ expand1 m X.
  Proof.
    intros Hm Hm' HX. unfold expand1. apply inert_pass.
    - apply name_ok_in, Hm.
    - exact HX.
    - exact (proj1 (proj2 (proj2 (proj2 (macro_ok_inv m' (Hok m' Hm')))))).
    - exact (Hinert m m' Hm Hm').
  Qed.

  (* the passes of two macros commute *)
  Lemma expand1_comm m1 m2 : In m1 T -> In m2 T -> fst m1 <> fst m2 ->
    forall q, expand1 m1 (expand1 m2 q) = expand1 m2 (expand1 m1 q).
  Proof.
    intros H1 H2 Hne q.
    pose proof (name_ok_in m1 H1) as N1. pose proof (name_ok_in m2 H2) as N2.
    pose proof (Hok m1 H1) as O1. pose proof (Hok m2 H2) as O2.
    pattern q. apply runs_ind; clear q.
    - reflexivity.
    - intros b r Hb IH. rewrite !expand1_sep by assumption. rewrite IH. reflexivity.
    - intros w r Hw Hf Hr IH.
      rewrite (expand1_run m2 w r) by assumption. rewrite (expand1_run m1 w r) by assumption.
      destruct (bytes_eqb w (fst m2) && suffix_ok r) eqn:C2; destruct (bytes_eqb w (fst m1) && suffix_ok r) eqn:C1.
      + apply andb_true_iff in C1, C2. destruct C1 as [C1 _], C2 as [C2 _]. apply bytes_eqb_eq in C1, C2. congruence.
      + apply andb_true_iff in C2. destruct C2 as [E2 S2].
        rewrite expand1_def by (try assumption; rewrite suffix_ok_expand1; assumption).
        rewrite (expand1_run m2 w (expand1 m1 r)) by (try assumption; apply next_free_expand1; assumption).
        rewrite suffix_ok_expand1 by assumption. rewrite E2, S2. cbn [andb]. rewrite IH. reflexivity.
      + apply andb_true_iff in C1. destruct C1 as [E1 S1].
        rewrite (expand1_def m2 m1) by (try assumption; rewrite suffix_ok_expand1; assumption).
        rewrite (expand1_run m1 w (expand1 m2 r)) by (try assumption; apply next_free_expand1; assumption).
        rewrite suffix_ok_expand1 by assumption. rewrite E1, S1. cbn [andb]. rewrite IH. reflexivity.
      + rewrite (expand1_run m1 w (expand1 m2 r)) by (try assumption; apply next_free_expand1; assumption).
        rewrite (expand1_run m2 w (expand1 m1 r)) by (try assumption; apply next_free_expand1; assumption).
        rewrite !suffix_ok_expand1 by assumption. rewrite C1, C2, IH. reflexivity.
  Qed.

  (* the pass of one macro is idempotent *)
  Lemma expand1_idem m : In m T -> forall q, expand1 m (expand1 m q) = expand1 m q.
  Proof.
    intros H q. pose proof (name_ok_in m H) as N. pose proof (Hok m H) as O.
    pattern q. apply runs_ind; clear q.
    - reflexivity.
    - intros b r Hb IH. rewrite !expand1_sep by assumption. rewrite IH. reflexivity.
    - intros w r Hw Hf Hr IH. rewrite (expand1_run m w r) by assumption.
      destruct (bytes_eqb w (fst m) && suffix_ok r) eqn:C.
      + apply andb_true_iff in C. destruct C as [_ S].
        rewrite expand1_def by (try assumption; rewrite suffix_ok_expand1; assumption). rewrite IH. reflexivity.
      + rewrite (expand1_run m w (expand1 m r)) by (try assumption; apply next_free_expand1; assumption).
        rewrite suffix_ok_expand1 by assumption. rewrite C, IH. reflexivity.
  Qed.

  Lemma expand1_comm_any m1 m2 : In m1 T -> In m2 T ->
    forall q, expand1 m1 (expand1 m2 q) = expand1 m2 (expand1 m1 q).
  Proof.
    intros H1 H2 q. destruct (bytes_eqb (fst m1) (fst m2)) eqn:E.
    - apply bytes_eqb_eq in E.
      rewrite (nodup_names_inj T (proj1 (table_ok_inv T HT)) m1 m2 H1 H2 E). reflexivity.
    - apply expand1_comm; try assumption. intro E'. rewrite E', bytes_eqb_refl in E. discriminate.
  Qed.

  (* ---------------------------------------------------------------- the loop over the table *)
  Lemma expand_cons m o q : expand (m :: o) q = expand o (expand1 m q).
  Proof. reflexivity. Qed.

  Lemma expand_nil q : expand [] q = q.
  Proof. reflexivity. Qed.

  Lemma expand1_expand_comm m o : In m T -> incl o T -> forall q, expand1 m (expand o q) = expand o (expand1 m q).
  Proof.
    intros Hm. induction o as [|x o IH]; intros Ho q; [reflexivity|].
    rewrite !expand_cons. rewrite IH by (intros y Hy; apply Ho; right; exact Hy).
    rewrite (expand1_comm_any m x) by (try assumption; apply Ho; left; reflexivity). reflexivity.
  Qed.

  Theorem expand_perm o1 o2 : Permutation o1 o2 -> incl o1 T -> forall q, expand o1 q = expand o2 q.
  Proof.
    induction 1 as [|x l l' HP IH|x y l|l l' l'' HP1 IH1 HP2 IH2]; intros Hi q.
    - reflexivity.
    - rewrite !expand_cons. apply IH. intros z Hz. apply Hi. right. exact Hz.
    - rewrite !expand_cons. rewrite (expand1_comm_any x y); [reflexivity | |]; apply Hi; cbn [In]; auto.
    - rewrite IH1 by assumption. apply IH2. intros z Hz. apply Hi. apply Permutation_sym in HP1. exact (Permutation_in z HP1 Hz).
  Qed.

  Theorem expand_idem o : incl o T -> forall q, expand o (expand o q) = expand o q.
  Proof.
    induction o as [|m o IH]; intros Hi q; [reflexivity|].
    assert (Hm : In m T) by (apply Hi; left; reflexivity).
    assert (Ho : incl o T) by (intros z Hz; apply Hi; right; exact Hz).
    rewrite !expand_cons. rewrite (expand1_expand_comm m o Hm Ho (expand1 m q)).
    rewrite expand1_idem by assumption. apply IH, Ho.
  Qed.

  Lemma suffix_ok_expand o : incl o T -> forall q, suffix_ok (expand o q) = suffix_ok q.
  Proof.
    induction o as [|m o IH]; intros Hi q; [reflexivity|].
    rewrite expand_cons, IH by (intros z Hz; apply Hi; right; exact Hz).
    apply suffix_ok_expand1, Hok, Hi. left. reflexivity.
  Qed.

  Lemma next_free_expand o : incl o T -> forall r, next_free r = true -> next_free (expand o r) = true.
  Proof.
    induction o as [|m o IH]; intros Hi r Hr; [exact Hr|].
    rewrite expand_cons. apply IH; [intros z Hz; apply Hi; right; exact Hz|].
    apply next_free_expand1; [apply name_ok_in, Hi; left; reflexivity | exact Hr].
  Qed.

  Lemma expand_def o m' : incl o T -> In m' T -> forall X, suffix_ok X = true ->
    expand o (snd m' ++ X) = snd m' ++ expand o X.
  Proof.
    induction o as [|m o IH]; intros Hi Hm' X HX; [reflexivity|].
    assert (Hm : In m T) by (apply Hi; left; reflexivity).
    rewrite !expand_cons, expand1_def by assumption.
    apply IH; [intros z Hz; apply Hi; right; exact Hz | exact Hm' |].
    rewrite suffix_ok_expand1; [exact HX | apply Hok, Hm].
  Qed.

  (* ---------------------------------------------------------------- only standalone identifiers *)
  Theorem expand_sep o b r : incl o T -> is_blocker b = false -> expand o (b :: r) = b :: expand o r.
  Proof.
    revert r. induction o as [|m o IH]; intros r Hi Hb; [reflexivity|].
    rewrite !expand_cons, expand1_sep by (try assumption; apply name_ok_in, Hi; left; reflexivity).
    apply IH; [intros z Hz; apply Hi; right; exact Hz | exact Hb].
  Qed.

  Theorem expand_run o w r : incl o T -> w <> [] -> Forall (fun b => is_blocker b = true) w -> next_free r = true ->
    expand o (w ++ r) =
    (if suffix_ok r then match find_macro w o with Some d => d | None => w end else w) ++ expand o r.
  Proof.
    revert r. induction o as [|m o IH]; intros r Hi Hw Hf Hr.
    - cbn [find_macro]. destruct (suffix_ok r); reflexivity.
    - assert (Hm : In m T) by (apply Hi; left; reflexivity).
      assert (Ho : incl o T) by (intros z Hz; apply Hi; right; exact Hz).
      pose proof (name_ok_in m Hm) as N.
      rewrite !expand_cons, expand1_run by assumption. cbn [find_macro].
      destruct (bytes_eqb w (fst m)) eqn:E; destruct (suffix_ok r) eqn:S; cbn [andb].
      + apply (expand_def o m Ho Hm). rewrite suffix_ok_expand1; [exact S | apply Hok, Hm].
      + rewrite IH by (try assumption; apply next_free_expand1; assumption).
        rewrite suffix_ok_expand1 by (apply Hok, Hm). rewrite S. reflexivity.
      + rewrite IH by (try assumption; apply next_free_expand1; assumption).
        rewrite suffix_ok_expand1 by (apply Hok, Hm). rewrite S. reflexivity.
      + rewrite IH by (try assumption; apply next_free_expand1; assumption).
        rewrite suffix_ok_expand1 by (apply Hok, Hm). rewrite S. reflexivity.
  Qed.
End Table.

(* ------------------------------------------------------------------ string literals *)
(* the body of a double-quoted literal: read from inside a literal it never leaves the literal
   (an escaped quote does not end it) and it ends unescaped *)
Fixpoint stays_in (s : lst) (l : bytes) : bool :=
  match l with
  | [] => lst_eqb s Str
  | b :: r => match s with Str | StrEsc => stays_in (lstep s b) r | _ => false end
  end.

(* text outside the literals: no quote and no backslash *)
Definition plain (q : bytes) : bool :=
  forallb (fun b => negb (Byte.eqb b QUOTE) && negb (Byte.eqb b BSLASH)) q.

(* out1 "lit1" out2 "lit2" ... last, with f applied to the parts outside the literals *)
Fixpoint assemble (f : bytes -> bytes) (segs : list (bytes * bytes)) (last : bytes) : bytes :=
  match segs with
  | [] => f last
  | (out, lit) :: tl => f out ++ QUOTE :: lit ++ QUOTE :: assemble f tl last
  end.

Lemma stays_in_start s l : stays_in s l = true -> s = Str \/ s = StrEsc.
Proof. destruct l; destruct s; cbn [stays_in lst_eqb]; intro H; try discriminate; auto. Qed.

Lemma stays_in_end l : forall s, stays_in s l = true -> lrun s l = Str.
Proof.
  induction l as [|b l IH]; intros s H.
  - cbn [stays_in] in H. apply lst_eqb_eq in H. exact H.
  - rewrite lrun_cons. apply IH. destruct s; cbn [stays_in] in H; try discriminate; exact H.
Qed.

Lemma stays_in_app a : forall s b, stays_in s (a ++ b) = true -> stays_in (lrun s a) b = true.
Proof.
  induction a as [|x a IH]; intros s b H; [exact H|].
  rewrite lrun_cons. apply IH. cbn [app stays_in] in H. destruct s; try discriminate; exact H.
Qed.

Lemma word_not_special b : is_word b = true -> Byte.eqb b QUOTE = false /\ Byte.eqb b BSLASH = false.
Proof.
  intro H. split.
  - destruct (Byte.eqb b QUOTE) eqn:E; [|reflexivity]. apply beqb_eq in E. subst b. vm_compute in H. discriminate.
  - destruct (Byte.eqb b BSLASH) eqn:E; [|reflexivity]. apply beqb_eq in E. subst b. vm_compute in H. discriminate.
Qed.

Lemma lrun_name_in_str n : name_ok n = true -> forall s, s = Str \/ s = StrEsc -> lrun s n = Str.
Proof.
  unfold name_ok. destruct n as [|a n]; [discriminate|]. intros H s Hs.
  cbn [forallb] in H. apply andb_true_iff in H. destruct H as [Ha Hn].
  rewrite lrun_cons. assert (E : lstep s a = Str).
  { destruct (word_not_special a Ha) as [E1 E2]. destruct Hs as [-> | ->]; cbn [lstep]; [rewrite E1, E2|]; reflexivity. }
  rewrite E. clear Ha E Hs a s. induction n as [|b n IH]; [reflexivity|].
  cbn [forallb] in Hn. apply andb_true_iff in Hn. destruct Hn as [Hb Hn].
  rewrite lrun_cons. destruct (word_not_special b Hb) as [E1 E2]. cbn [lstep]. rewrite E1, E2. apply IH, Hn.
Qed.

Lemma quote_free : is_blocker QUOTE = false.
Proof. vm_compute. reflexivity. Qed.

(* a name that is a prefix of  lit QUOTE rest  lies within lit *)
Lemma prefix_within n : Forall (fun b => is_blocker b = true) n -> forall lit rest rest0,
  lit ++ QUOTE :: rest = n ++ rest0 -> exists x, lit = n ++ x /\ rest0 = x ++ QUOTE :: rest.
Proof.
  induction n as [|a n IH]; intros F lit rest rest0 E.
  - exists lit. split; [reflexivity | symmetry; exact E].
  - destruct lit as [|b lit]; cbn [app] in E.
    + injection E as <- _. pose proof (Forall_inv F) as Ha. cbn beta in Ha. rewrite quote_free in Ha. discriminate.
    + injection E as -> E. destruct (IH (Forall_inv_tail F) lit rest rest0 E) as (x & -> & ->). exists x. split; reflexivity.
Qed.

Lemma no_bslash_states x : no_bslash x = true -> forall s, s = Out \/ s = Str -> lrun s x = Out \/ lrun s x = Str.
Proof.
  induction x as [|b x IH]; intros H s Hs; [exact Hs|].
  cbn [no_bslash forallb] in H. apply andb_true_iff in H. destruct H as [Hb Hx]. apply negb_true_iff in Hb.
  rewrite lrun_cons. apply (IH Hx).
  destruct Hs as [-> | ->]; cbn [lstep]; rewrite Hb; destruct (Byte.eqb b QUOTE); auto.
Qed.

Section Literal.
  Variable n d : bytes.
  Hypothesis Hn : name_ok n = true.

  (* inside a literal nothing is replaced *)
  Lemma pass_in_str rest : suffix_ok rest = true -> forall lit s p, stays_in s lit = true ->
    pass n d 0 p (lit ++ QUOTE :: rest) = lit ++ QUOTE :: pass n d 0 false rest.
  Proof.
    intros Hrest. destruct (name_ok_inv _ Hn) as [Hne Hnf].
    induction lit as [|b lit IH]; intros s p Hs.
    - cbn [app]. apply pass_sep; [exact Hn | exact quote_free].
    - assert (M : match_here n ((b :: lit) ++ QUOTE :: rest) = false).
      { destruct (match_here n ((b :: lit) ++ QUOTE :: rest)) eqn:M; [|reflexivity]. exfalso.
        apply match_here_true in M. destruct M as (rest0 & E & M1 & M2).
        destruct (prefix_within n Hnf _ _ _ E) as (x & El & ->).
        rewrite El in Hs. pose proof (stays_in_app n s x Hs) as Hx.
        rewrite (lrun_name_in_str n Hn s (stays_in_start _ _ Hs)) in Hx.
        apply stays_in_end in Hx. apply suffix_ok_iff in M2.
        rewrite lrun_app in M2. change Out with (flip Str) in M2 at 1. rewrite lrun_flip, Hx in M2.
        cbn [flip] in M2. rewrite lrun_cons in M2. cbn [lstep] in M2. rewrite beqb_refl in M2.
        rewrite (lrun_Str_of_ok rest Hrest) in M2. discriminate. }
      cbn [app] in M |- *. cbn [pass]. rewrite M, andb_false_r. f_equal.
      apply (IH (lstep s b)). cbn [stays_in] in Hs. destruct s; try discriminate; exact Hs.
  Qed.

  (* what precedes a context that the look-ahead runs through unchanged is rewritten on its own *)
  Lemma pass_pre ctx : next_free ctx = true -> (forall s, s = Out \/ s = Str -> lrun s ctx = s) ->
    forall pre, no_bslash pre = true ->
    pass n d 0 false (pre ++ ctx) = pass n d 0 false pre ++ pass n d 0 false ctx.
  Proof.
    intros Hc Hl pre. pattern pre. apply runs_ind; clear pre.
    - reflexivity.
    - intros b r Hb IH H. cbn [app]. rewrite !pass_sep by assumption. cbn [app]. f_equal. apply IH.
      cbn [no_bslash forallb] in H. apply andb_true_iff in H. apply H.
    - intros w r Hw Hf Hr IH H. unfold no_bslash in H. rewrite forallb_app in H. apply andb_true_iff in H. destruct H as [_ H].
      rewrite <- app_assoc.
      assert (Hr' : next_free (r ++ ctx) = true) by (destruct r; [exact Hc | exact Hr]).
      rewrite (pass_run n d Hn w (r ++ ctx)) by assumption. rewrite (pass_run n d Hn w r) by assumption.
      rewrite <- app_assoc. rewrite IH by exact H.
      assert (S : suffix_ok (r ++ ctx) = suffix_ok r).
      { unfold suffix_ok. rewrite lrun_app. rewrite Hl; [reflexivity|]. apply no_bslash_states; [exact H | left; reflexivity]. }
      rewrite S. reflexivity.
  Qed.
End Literal.

Lemma no_bslash_expand1 m : macro_ok m = true -> forall q, no_bslash q = true -> no_bslash (expand1 m q) = true.
Proof.
  intro Hm. destruct (macro_ok_inv m Hm) as (Hn & Hd & _).
  intro q. pattern q. apply runs_ind; clear q.
  - reflexivity.
  - intros b r Hb IH H. rewrite expand1_sep by assumption. cbn [no_bslash forallb] in *.
    apply andb_true_iff in H. destruct H as [H1 H2]. rewrite H1. apply IH, H2.
  - intros w r Hw Hf Hr IH H. rewrite expand1_run by assumption. unfold no_bslash in *.
    rewrite forallb_app in H. apply andb_true_iff in H. destruct H as [H1 H2].
    rewrite forallb_app. apply andb_true_iff. split; [destruct (bytes_eqb w (fst m) && suffix_ok r); assumption | exact (IH H2)].
Qed.

Lemma expand1_literal m : macro_ok m = true -> forall pre lit rest,
  no_bslash pre = true -> stays_in Str lit = true -> suffix_ok rest = true ->
  expand1 m (pre ++ QUOTE :: lit ++ QUOTE :: rest) = expand1 m pre ++ QUOTE :: lit ++ QUOTE :: expand1 m rest.
Proof.
  intros Hm pre lit rest Hp Hl Hr. destruct (macro_ok_inv m Hm) as (Hn & _).
  assert (Hout : lrun Out (QUOTE :: lit ++ QUOTE :: rest) = Out).
  { rewrite lrun_cons. cbn [lstep]. rewrite beqb_refl. rewrite lrun_app, (stays_in_end _ _ Hl), lrun_cons. cbn [lstep].
    rewrite beqb_refl. apply suffix_ok_iff, Hr. }
  unfold expand1. rewrite pass_pre; try assumption.
  - f_equal. rewrite pass_sep by (try assumption; exact quote_free). f_equal.
    apply (pass_in_str (fst m) (snd m) Hn rest Hr lit Str false Hl).
  - cbn [next_free]. rewrite quote_free. reflexivity.
  - intros s [-> | ->]; [exact Hout|]. change Str with (flip Out). rewrite lrun_flip, Hout. reflexivity.
Qed.

Section TableLiteral.
  Variable T : list macro.
  Hypothesis HT : table_ok T = true.

  Theorem expand_literal o : incl o T -> forall pre lit rest,
    no_bslash pre = true -> stays_in Str lit = true -> suffix_ok rest = true ->
    expand o (pre ++ QUOTE :: lit ++ QUOTE :: rest) = expand o pre ++ QUOTE :: lit ++ QUOTE :: expand o rest.
  Proof.
    induction o as [|m o IH]; intros Hi pre lit rest Hp Hl Hr; [reflexivity|].
    assert (Hm : macro_ok m = true) by (apply (proj1 (proj2 (table_ok_inv T HT))), Hi; left; reflexivity).
    rewrite !expand_cons, expand1_literal by assumption.
    apply IH; [intros z Hz; apply Hi; right; exact Hz | apply no_bslash_expand1; assumption | exact Hl |].
    rewrite suffix_ok_expand1; assumption.
  Qed.

  Lemma plain_no_bslash q : plain q = true -> no_bslash q = true.
  Proof.
    unfold plain, no_bslash. intro H. rewrite forallb_forall in *. intros b Hb. specialize (H b Hb).
    apply andb_true_iff in H. apply H.
  Qed.

  Lemma plain_lrun q : plain q = true -> forall s, s = Out \/ s = Str -> lrun s q = s.
  Proof.
    induction q as [|b q IH]; intros H s Hs; [reflexivity|].
    cbn [plain forallb] in H. apply andb_true_iff in H. destruct H as [Hb Hq]. apply andb_true_iff in Hb.
    destruct Hb as [B1 B2]. apply negb_true_iff in B1, B2. rewrite lrun_cons.
    replace (lstep s b) with s; [apply IH; assumption|]. destruct Hs as [-> | ->]; cbn [lstep]; rewrite B1, B2; reflexivity.
  Qed.

  Lemma assemble_ok segs last : Forall (fun sl => plain (fst sl) = true /\ stays_in Str (snd sl) = true) segs ->
    plain last = true -> suffix_ok (assemble (fun x => x) segs last) = true.
  Proof.
    intros F Hl. induction segs as [|[out lit] segs IH]; cbn [assemble].
    - apply suffix_ok_iff. apply plain_lrun; [exact Hl | left; reflexivity].
    - pose proof (Forall_inv F) as [Ho Hs]. cbn [fst snd] in Ho, Hs. apply suffix_ok_iff.
      rewrite lrun_app, (plain_lrun out Ho Out) by (left; reflexivity).
      rewrite lrun_cons. cbn [lstep]. rewrite beqb_refl. rewrite lrun_app, (stays_in_end _ _ Hs), lrun_cons. cbn [lstep].
      rewrite beqb_refl. apply suffix_ok_iff, IH, (Forall_inv_tail F).
  Qed.

  (* every double-quoted literal is copied byte for byte, whatever it contains, and each part
     outside the literals is rewritten on its own *)
  Theorem expand_assemble o : incl o T -> forall segs last,
    Forall (fun sl => plain (fst sl) = true /\ stays_in Str (snd sl) = true) segs -> plain last = true ->
    expand o (assemble (fun x => x) segs last) = assemble (expand o) segs last.
  Proof.
    intros Hi segs last F Hl. induction segs as [|[out lit] segs IH]; cbn [assemble]; [reflexivity|].
    pose proof (Forall_inv F) as [Ho Hs]. cbn [fst snd] in Ho, Hs.
    rewrite (expand_literal o Hi) by (first [assumption | apply plain_no_bslash, Ho | apply assemble_ok; [exact (Forall_inv_tail F) | exact Hl]]).
    rewrite IH by exact (Forall_inv_tail F). reflexivity.
  Qed.
End TableLiteral.

(* ------------------------------------------------------------------ ExpandMacros: sort + loop *)
Lemma insert_by_len_perm m l : Permutation (insert_by_len m l) (m :: l).
Proof.
  induction l as [|x l IH]; cbn [insert_by_len]; [apply Permutation_refl|].
  destruct (length (fst x) <? length (fst m))%nat; [apply Permutation_refl|].
  apply Permutation_trans with (x :: m :: l); [apply perm_skip, IH | apply perm_swap].
Qed.

Lemma sort_by_len_perm l : Permutation (sort_by_len l) l.
Proof.
  induction l as [|x l IH]; cbn [sort_by_len fold_right]; [apply Permutation_refl|].
  apply Permutation_trans with (x :: sort_by_len l); [apply insert_by_len_perm | apply perm_skip, IH].
Qed.

(* whatever order the Go map is iterated in (and however the sort breaks ties), the result is
   the one of the loop over the table as written down *)
Theorem expand_macros_order T : table_ok T = true -> forall o, Permutation o T ->
  forall q, expand_macros o q = expand T q.
Proof.
  intros HT o Hp q. unfold expand_macros.
  assert (P : Permutation (sort_by_len o) T) by (eapply Permutation_trans; [apply sort_by_len_perm | exact Hp]).
  apply (expand_perm T HT _ _ P). intros z Hz. exact (Permutation_in z P Hz).
Qed.
