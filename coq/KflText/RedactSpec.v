(* Specification vocabulary for C15, independent of the model (Redact.v is not imported):
   what a location is, which locations a path denotes (declarative JSONPath semantics of the
   fragments child / index / wildcard / descent and of json() hops), and the four clauses. *)
Require Import V.Base.Prelude V.KflText.Macro V.KflText.RJv.
Local Open Scope bool_scope.

(* records come from a JSON parser into Go maps: one entry per key, at every level *)
Fixpoint wf (v : jv) : Prop :=
  match v with
  | JArr l => (fix all (l : list jv) : Prop := match l with [] => True | c :: r => wf c /\ all r end) l
  | JObj kvs => NoDup (map fst kvs) /\
                (fix all (l : list (bytes * jv)) : Prop := match l with [] => True | kv :: r => wf (snd kv) /\ all r end) kvs
  | _ => True
  end.

Definition is_leaf (v : jv) : Prop :=
  match v with JArr _ | JObj _ => False | _ => True end.

Definition is_prefix (a b : loc) : Prop := exists r, b = a ++ r.
Definition comparable (a b : loc) : Prop := is_prefix a b \/ is_prefix b a.

(* the paths that Go's jp.Expr denotes, as a relation *)
Inductive Denotes : list frag -> jv -> loc -> Prop :=
| D_nil v : Denotes [] v []
| D_child k rest kvs c L :
    lookup k kvs = Some c -> Denotes rest c L -> Denotes (Child k :: rest) (JObj kvs) (SKey k :: L)
| D_nth i rest xs n c L :
    norm_index i (length xs) = Some n -> nth_error xs n = Some c -> Denotes rest c L ->
    Denotes (Nth i :: rest) (JArr xs) (SIdx n :: L)
| D_wild_arr rest xs n c L :
    nth_error xs n = Some c -> Denotes rest c L -> Denotes (Wild :: rest) (JArr xs) (SIdx n :: L)
| D_wild_obj rest kvs k c L :
    In (k, c) kvs -> Denotes rest c L -> Denotes (Wild :: rest) (JObj kvs) (SKey k :: L)
| D_desc_here rest v L :
    Denotes rest v L -> Denotes (Desc :: rest) v L
| D_desc_arr rest xs n c L :
    nth_error xs n = Some c -> Denotes (Desc :: rest) c L -> Denotes (Desc :: rest) (JArr xs) (SIdx n :: L)
| D_desc_obj rest kvs k c L :
    In (k, c) kvs -> Denotes (Desc :: rest) c L -> Denotes (Desc :: rest) (JObj kvs) (SKey k :: L).

Section Spec.
  (* the nested-document libraries *)
  Variable parse : bytes -> option jv.
  Variable b64d : bytes -> option bytes.

  (* the document stored in a string field: base64 is tried first *)
  Definition decode (s : bytes) : option jv :=
    parse (match b64d s with Some t => t | None => s end).

  (* the value at a location *)
  Fixpoint sub (v : jv) (l : loc) : option jv :=
    match l with
    | [] => Some v
    | s :: l' =>
        match s, v with
        | SKey k, JObj kvs => match lookup k kvs with Some c => sub c l' | None => None end
        | SIdx n, JArr xs => match nth_error xs n with Some c => sub c l' | None => None end
        | SHop, JStr t => match decode t with Some c => sub c l' | None => None end
        | _, _ => None
        end
    end.

  (* an argument of redact: pieces separated by json() hops *)
  Inductive DenotesArg : list (list frag) -> jv -> loc -> Prop :=
  | DA_last p v L : Denotes p v L -> DenotesArg [p] v L
  | DA_hop p q rest v L1 t inner L2 :
      Denotes p v L1 -> sub v L1 = Some (JStr t) -> decode t = Some inner ->
      DenotesArg (q :: rest) inner L2 -> DenotesArg (p :: q :: rest) v (L1 ++ SHop :: L2).

  (* the four clauses of the property for the locations D that the paths denote *)
  Definition marker_at_denoted (D : loc -> Prop) (r' : jv) : Prop :=
    forall L, D L -> exists L0 Lr, L = L0 ++ Lr /\ D L0 /\ sub r' L0 = Some MARK.
  Definition frame (D : loc -> Prop) (r r' : jv) : Prop :=
    forall L x, sub r L = Some x -> (forall d, D d -> ~ comparable d L) -> sub r' L = Some x.
  (* a leaf of the un-nested record: a scalar, or a string that is not a nested document *)
  Definition is_uleaf (x : jv) : Prop :=
    is_leaf x /\ forall t, x = JStr t -> decode t = None.
  Definition leaves_from_original (r r' : jv) : Prop :=
    forall L x, sub r' L = Some x -> is_uleaf x -> x = MARK \/ sub r L = Some x.
  Definition no_location_added (r r' : jv) : Prop :=
    forall L, sub r' L <> None -> sub r L <> None.
End Spec.

(* The model (like the code) follows a json() hop through the first match only and writes the
   re-encoded document to every match: the theorems cover the arguments whose part in front of
   each hop denotes at most one location (recorded finding C15-wildcard-before-hop otherwise). *)
Section Single.
  Variable parse : bytes -> option jv.
  Variable b64d : bytes -> option bytes.

  Inductive SingleHops : list (list frag) -> jv -> Prop :=
  | SH_last p v : SingleHops [p] v
  | SH_hop p q rest v :
      (forall L L', Denotes p v L -> Denotes p v L' -> L = L') ->
      (forall L t inner, Denotes p v L -> sub parse b64d v L = Some (JStr t) -> decode parse b64d t = Some inner ->
                         SingleHops (q :: rest) inner) ->
      SingleHops (p :: q :: rest) v.
End Single.
