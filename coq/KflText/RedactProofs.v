(* Proofs about the model of redact (Redact.v) against the specification (RedactSpec.v).
   Part A: setMatches with a JSON path equals [mark], the top-down replacement of every denoted
   subtree, and [mark] satisfies the four clauses.  Part B: the same through json() hops under the
   contracts of the nested-document oracles.  Part C: several arguments. *)
Require Import V.Base.Prelude V.KflText.Macro V.KflText.MacroProofs V.KflText.RJv V.KflText.Redact V.KflText.RedactSpec.
Local Open Scope bool_scope.

(* ------------------------------------------------------------------ induction on values *)
Fixpoint jv_ind' (P : jv -> Prop)
  (Hnull : P JNull) (Hbool : forall b, P (JBool b)) (Hnum : forall z, P (JNum z)) (Hstr : forall s, P (JStr s))
  (Harr : forall l, Forall P l -> P (JArr l))
  (Hobj : forall kvs, Forall (fun kv => P (snd kv)) kvs -> P (JObj kvs))
  (v : jv) : P v :=
  match v with
  | JNull => Hnull
  | JBool b => Hbool b
  | JNum z => Hnum z
  | JStr s => Hstr s
  | JArr l => Harr l ((fix go (l : list jv) : Forall P l :=
                         match l with
                         | [] => Forall_nil P
                         | c :: r => Forall_cons c (jv_ind' P Hnull Hbool Hnum Hstr Harr Hobj c) (go r)
                         end) l)
  | JObj kvs => Hobj kvs ((fix go (l : list (bytes * jv)) : Forall (fun kv => P (snd kv)) l :=
                             match l with
                             | [] => Forall_nil _
                             | kv :: r => Forall_cons kv (jv_ind' P Hnull Hbool Hnum Hstr Harr Hobj (snd kv)) (go r)
                             end) kvs)
  end.

Lemma step_eqb_eq a b : step_eqb a b = true <-> a = b.
Proof.
  destruct a, b; cbn [step_eqb]; split; intro H; try discriminate; try reflexivity.
  - apply bytes_eqb_eq in H. congruence.
  - injection H as ->. apply bytes_eqb_refl.
  - apply Nat.eqb_eq in H. congruence.
  - injection H as ->. apply Nat.eqb_refl.
Qed.

Lemma step_eqb_refl a : step_eqb a a = true.
Proof. apply step_eqb_eq. reflexivity. Qed.

(* ------------------------------------------------------------------ mark: every subtree at a location of D becomes the marker *)
Definition has_nil (D : list loc) : bool :=
  existsb (fun l => match l with [] => true | _ => false end) D.

Definition under1 (s : step) (l : loc) : list loc :=
  match l with
  | s' :: r => if step_eqb s s' then [r] else []
  | [] => []
  end.
Definition under (s : step) (D : list loc) : list loc := flat_map (under1 s) D.

Fixpoint mark (D : list loc) (v : jv) {struct v} : jv :=
  if has_nil D then MARK else
  match v with
  | JArr l => JArr ((fix go (i : nat) (l : list jv) : list jv :=
                       match l with
                       | [] => []
                       | c :: r => mark (under (SIdx i) D) c :: go (S i) r
                       end) 0%nat l)
  | JObj kvs => JObj (map (fun kv => (fst kv, mark (under (SKey (fst kv)) D) (snd kv))) kvs)
  | _ => v
  end.

Fixpoint mark_arr (D : list loc) (i : nat) (l : list jv) : list jv :=
  match l with
  | [] => []
  | c :: r => mark (under (SIdx i) D) c :: mark_arr D (S i) r
  end.
Definition mark_obj (D : list loc) (kvs : list (bytes * jv)) : list (bytes * jv) :=
  map (fun kv => (fst kv, mark (under (SKey (fst kv)) D) (snd kv))) kvs.

Lemma mark_unfold D v :
  mark D v = if has_nil D then MARK else
             match v with
             | JArr l => JArr (mark_arr D 0 l)
             | JObj kvs => JObj (mark_obj D kvs)
             | _ => v
             end.
Proof.
  destruct v; cbn [mark]; try reflexivity.
  destruct (has_nil D); [reflexivity|]. f_equal.
  generalize 0%nat. induction l as [|c r IH]; intro i; [reflexivity|]. cbn [mark_arr]. rewrite <- IH. reflexivity.
Qed.

Lemma has_nil_spec D : has_nil D = true <-> In [] D.
Proof.
  unfold has_nil. rewrite existsb_exists. split.
  - intros (l & Hin & Hl). destruct l; [exact Hin | discriminate].
  - intro H. exists []. split; [exact H | reflexivity].
Qed.

Lemma in_under s r D : In r (under s D) <-> In (s :: r) D.
Proof.
  unfold under. rewrite in_flat_map. split.
  - intros (l & Hin & Hl). destruct l as [|s' r']; [contradiction|]. cbn [under1] in Hl.
    destruct (step_eqb s s') eqn:E; [|contradiction]. apply step_eqb_eq in E. subst s'.
    destruct Hl as [<-|[]]. exact Hin.
  - intro H. exists (s :: r). split; [exact H|]. cbn [under1]. rewrite step_eqb_refl. left. reflexivity.
Qed.

Lemma under_nil s : under s [] = [].
Proof. reflexivity. Qed.

Lemma under_cons s l D : under s (l :: D) = under1 s l ++ under s D.
Proof. reflexivity. Qed.

Lemma mark_nil v : mark [] v = v.
Proof.
  induction v as [| | | |l IH|kvs IH] using jv_ind'; rewrite mark_unfold; cbn [has_nil existsb]; try reflexivity.
  - f_equal. generalize 0%nat. induction IH as [|c r Hc _ IHr]; intro i; [reflexivity|].
    cbn [mark_arr]. rewrite under_nil, Hc, IHr. reflexivity.
  - f_equal. unfold mark_obj. induction IH as [|kv r Hc _ IHr]; [reflexivity|].
    cbn [map]. rewrite under_nil, Hc, IHr. destruct kv; reflexivity.
Qed.

Lemma nth_mark_arr D l : forall i n,
  nth_error (mark_arr D i l) n = option_map (mark (under (SIdx (i + n)) D)) (nth_error l n).
Proof.
  induction l as [|c r IH]; intros i n; [destruct n; reflexivity|].
  destruct n as [|n]; cbn [mark_arr nth_error option_map].
  - rewrite Nat.add_0_r. reflexivity.
  - rewrite IH. replace (S i + n)%nat with (i + S n)%nat by lia. reflexivity.
Qed.

Lemma lookup_mark_obj D k kvs :
  lookup k (mark_obj D kvs) = option_map (mark (under (SKey k) D)) (lookup k kvs).
Proof.
  unfold mark_obj. induction kvs as [|[k' c] r IH]; [reflexivity|].
  cbn [map lookup fst snd]. destruct (bytes_eqb k k') eqn:E; [|exact IH].
  apply bytes_eqb_eq in E. subst k'. reflexivity.
Qed.

Section Clauses.
  Variable parse : bytes -> option jv.
  Variable b64d : bytes -> option bytes.
  (* the marker is not a document *)
  Hypothesis Hmark : decode parse b64d REDACTED = None.

  Notation sub := (sub parse b64d).

  Lemma sub_mark_step D v s L : has_nil D = false ->
    sub (mark D v) (s :: L) =
    match s, v with
    | SKey k, JObj kvs => match lookup k kvs with Some c => sub (mark (under (SKey k) D) c) L | None => None end
    | SIdx n, JArr xs => match nth_error xs n with Some c => sub (mark (under (SIdx n) D) c) L | None => None end
    | SHop, JStr t => sub (JStr t) (SHop :: L)
    | _, _ => None
    end.
  Proof.
    intro H. rewrite mark_unfold, H. destruct s, v; cbn [RedactSpec.sub]; try reflexivity.
    - rewrite lookup_mark_obj. destruct (lookup k kvs); reflexivity.
    - rewrite nth_mark_arr. destruct (nth_error l n); reflexivity.
  Qed.

  Definition hopfree (L : loc) : Prop := Forall (fun s => s <> SHop) L.

  (* every marked location that exists lies at or below a location that now holds the marker *)
  Lemma mark_marker : forall L v D, hopfree L -> In L D -> sub v L <> None ->
    exists L0 Lr, L = L0 ++ Lr /\ In L0 D /\ sub (mark D v) L0 = Some MARK.
  Proof.
    induction L as [|s L IH]; intros v D Hf Hin Hs.
    - exists [], []. repeat split; [exact Hin|]. cbn [RedactSpec.sub]. rewrite mark_unfold.
      rewrite (proj2 (has_nil_spec D) Hin). reflexivity.
    - destruct (has_nil D) eqn:Hn.
      + exists [], (s :: L). repeat split; [apply has_nil_spec, Hn|]. cbn [RedactSpec.sub]. rewrite mark_unfold, Hn. reflexivity.
      + pose proof (Forall_inv Hf) as Hs0. pose proof (Forall_inv_tail Hf) as Hf'. cbn beta in Hs0.
        assert (Hin' : In L (under s D)) by (apply in_under, Hin).
        cbn [RedactSpec.sub] in Hs. destruct s as [k|n|]; [| |congruence]; destruct v; try congruence.
        * destruct (lookup k kvs) as [c|] eqn:Lk; [|congruence].
          destruct (IH c (under (SKey k) D) Hf' Hin' Hs) as (L0 & Lr & -> & H0 & HM).
          exists (SKey k :: L0), Lr. repeat split; [apply in_under, H0|].
          rewrite sub_mark_step by exact Hn. rewrite Lk. exact HM.
        * destruct (nth_error l n) as [c|] eqn:Nk; [|congruence].
          destruct (IH c (under (SIdx n) D) Hf' Hin' Hs) as (L0 & Lr & -> & H0 & HM).
          exists (SIdx n :: L0), Lr. repeat split; [apply in_under, H0|].
          rewrite sub_mark_step by exact Hn. rewrite Nk. exact HM.
  Qed.

  Lemma comparable_nil d : comparable d [].
  Proof. right. exists d. reflexivity. Qed.

  Lemma comparable_cons s d L : comparable d L -> comparable (s :: d) (s :: L).
  Proof. intros [[r ->]|[r ->]]; [left|right]; exists r; reflexivity. Qed.

  (* what is disjoint from every marked location is unchanged *)
  Lemma mark_frame : forall L v D x, sub v L = Some x -> (forall d, In d D -> ~ comparable d L) ->
    sub (mark D v) L = Some x.
  Proof.
    induction L as [|s L IH]; intros v D x Hs Hd.
    - destruct D as [|d D]; [rewrite mark_nil; exact Hs|].
      exfalso. apply (Hd d); [left; reflexivity | apply comparable_nil].
    - assert (Hn : has_nil D = false).
      { destruct (has_nil D) eqn:Hn; [|reflexivity]. exfalso. apply has_nil_spec in Hn.
        apply (Hd [] Hn). left. exists (s :: L). reflexivity. }
      assert (Hd' : forall d, In d (under s D) -> ~ comparable d L).
      { intros d Hin C. apply in_under in Hin. exact (Hd _ Hin (comparable_cons s d L C)). }
      rewrite sub_mark_step by exact Hn. cbn [RedactSpec.sub] in Hs.
      destruct s as [k|n|]; destruct v; try congruence.
      + destruct (lookup k kvs) as [c|]; [|congruence]. apply IH; assumption.
      + destruct (nth_error l n) as [c|]; [|congruence]. apply IH; assumption.
      + exact Hs.
  Qed.

  (* a leaf of the result is the marker or the leaf that was there *)
  Lemma mark_leaves : forall L v D x, sub (mark D v) L = Some x -> is_leaf x -> x = MARK \/ sub v L = Some x.
  Proof.
    induction L as [|s L IH]; intros v D x Hs Hl.
    - cbn [RedactSpec.sub] in Hs. injection Hs as <-. rewrite mark_unfold in Hl |- *.
      destruct (has_nil D); [left; reflexivity|]. right. destruct v; try reflexivity; contradiction.
    - destruct (has_nil D) eqn:Hn.
      + rewrite mark_unfold, Hn in Hs. unfold MARK in Hs. cbn [RedactSpec.sub] in Hs.
        destruct s; try discriminate. rewrite Hmark in Hs. discriminate.
      + rewrite sub_mark_step in Hs by exact Hn. cbn [RedactSpec.sub].
        destruct s as [k|n|]; destruct v; try discriminate.
        * destruct (lookup k kvs) as [c|]; [|discriminate]. eapply IH; eassumption.
        * destruct (nth_error l n) as [c|]; [|discriminate]. eapply IH; eassumption.
        * right. exact Hs.
  Qed.

  (* no key, element or document appears *)
  Lemma mark_no_new : forall L v D, sub (mark D v) L <> None -> sub v L <> None.
  Proof.
    induction L as [|s L IH]; intros v D Hs; [discriminate|].
    destruct (has_nil D) eqn:Hn.
    - rewrite mark_unfold, Hn in Hs. unfold MARK in Hs. cbn [RedactSpec.sub] in Hs.
      destruct s; try congruence. rewrite Hmark in Hs. congruence.
    - rewrite sub_mark_step in Hs by exact Hn. cbn [RedactSpec.sub].
      destruct s as [k|n|]; destruct v; try congruence.
      + destruct (lookup k kvs) as [c|]; [|congruence]. eapply IH; eassumption.
      + destruct (nth_error l n) as [c|]; [|congruence]. eapply IH; eassumption.
      + exact Hs.
  Qed.
End Clauses.

(* ------------------------------------------------------------------ writing through a location = marking it *)
Lemma set_at_leaf x s L v : is_leaf v -> set_at x (s :: L) v = v.
Proof. destruct v, s; cbn [is_leaf set_at]; intro H; try reflexivity; contradiction. Qed.

Lemma under_cons_other s s' L D : step_eqb s s' = false -> under s ((s' :: L) :: D) = under s D.
Proof. intro H. rewrite under_cons. cbn [under1]. rewrite H. reflexivity. Qed.

Lemma under_cons_same s L D : under s ((s :: L) :: D) = L :: under s D.
Proof. rewrite under_cons. cbn [under1]. rewrite step_eqb_refl. reflexivity. Qed.

Lemma has_nil_cons s L D : has_nil ((s :: L) :: D) = has_nil D.
Proof. reflexivity. Qed.

Lemma mark_arr_other D s L l : (forall n, s <> SIdx n) -> forall i, mark_arr ((s :: L) :: D) i l = mark_arr D i l.
Proof.
  intro Hs. induction l as [|c r IH]; intro i; [reflexivity|]. cbn [mark_arr].
  rewrite under_cons_other, IH; [reflexivity|].
  destruct (step_eqb (SIdx i) s) eqn:E; [|reflexivity]. apply step_eqb_eq in E. exfalso. exact (Hs i (eq_sym E)).
Qed.

Lemma mark_obj_other D s L kvs : (forall k, s <> SKey k) -> mark_obj ((s :: L) :: D) kvs = mark_obj D kvs.
Proof.
  intro Hs. unfold mark_obj. apply map_ext. intro kv. rewrite under_cons_other; [reflexivity|].
  destruct (step_eqb (SKey (fst kv)) s) eqn:E; [|reflexivity]. apply step_eqb_eq in E. exfalso. exact (Hs _ (eq_sym E)).
Qed.

Lemma mark_arr_skip D j L r : forall m, (j < m)%nat -> mark_arr ((SIdx j :: L) :: D) m r = mark_arr D m r.
Proof.
  induction r as [|c r IHr]; intros m Hm; [reflexivity|]. cbn [mark_arr].
  rewrite under_cons_other, IHr by (try lia; cbn [step_eqb]; apply Nat.eqb_neq; lia). reflexivity.
Qed.

Section SetMark.
  Variable L : loc.
  Hypothesis IH : forall v D, set_at MARK L (mark D v) = mark (L :: D) v.

  Lemma set_nth_mark_arr : forall l n i D,
    set_nth n (set_at MARK L) (mark_arr D i l) = mark_arr ((SIdx (i + n) :: L) :: D) i l.
  Proof.
    induction l as [|c r IHl]; intros n i D; [destruct n; reflexivity|].
    destruct n as [|n]; cbn [mark_arr set_nth].
    - rewrite Nat.add_0_r, under_cons_same, IH, mark_arr_skip by lia. reflexivity.
    - rewrite IHl. rewrite under_cons_other by (cbn [step_eqb]; apply Nat.eqb_neq; lia).
      replace (S i + n)%nat with (i + S n)%nat by lia. reflexivity.
  Qed.

  Lemma set_key_mark_obj k D kvs :
    set_key k (set_at MARK L) (mark_obj D kvs) = mark_obj ((SKey k :: L) :: D) kvs.
  Proof.
    unfold set_key, mark_obj. rewrite map_map. apply map_ext. intro kv. cbn [fst snd].
    destruct (bytes_eqb k (fst kv)) eqn:E.
    - apply bytes_eqb_eq in E. subst k. rewrite under_cons_same, IH. reflexivity.
    - rewrite under_cons_other; [reflexivity|]. cbn [step_eqb].
      destruct (bytes_eqb (fst kv) k) eqn:E'; [|reflexivity]. apply bytes_eqb_eq in E'. subst k.
      rewrite bytes_eqb_refl in E. discriminate.
  Qed.
End SetMark.

Lemma set_at_mark : forall L v D, set_at MARK L (mark D v) = mark (L :: D) v.
Proof.
  induction L as [|s L IH]; intros v D.
  - cbn [set_at]. rewrite mark_unfold. reflexivity.
  - rewrite (mark_unfold D v), (mark_unfold (_ :: D) v), has_nil_cons.
    destruct (has_nil D); [apply set_at_leaf; exact I|].
    destruct v; try (apply set_at_leaf; exact I).
    + destruct s as [k|n|]; cbn [set_at].
      * rewrite mark_arr_other by (intros ? ?; discriminate). reflexivity.
      * rewrite (set_nth_mark_arr L IH l n 0 D). reflexivity.
      * rewrite mark_arr_other by (intros ? ?; discriminate). reflexivity.
    + destruct s as [k|n|]; cbn [set_at].
      * rewrite (set_key_mark_obj L IH k D kvs). reflexivity.
      * rewrite mark_obj_other by (intros ? ?; discriminate). reflexivity.
      * rewrite mark_obj_other by (intros ? ?; discriminate). reflexivity.
Qed.

Lemma fold_set_mark : forall (ms : list (loc * jv)) D v,
  fold_left (fun acc m => set_at MARK (fst m) acc) ms (mark D v) = mark (rev (map fst ms) ++ D) v.
Proof.
  induction ms as [|m ms IH]; intros D v; [reflexivity|].
  cbn [fold_left map rev]. rewrite set_at_mark, IH, <- app_assoc. reflexivity.
Qed.

(* setMatches with the marker = marking the locations of the matches *)
Lemma setm_mark fs v : setm MARK fs v = mark (rev (map fst (jmatches fs v))) v.
Proof.
  unfold setm. pose proof (fold_set_mark (jmatches fs v) [] v) as H. rewrite mark_nil, app_nil_r in H. exact H.
Qed.

(* ------------------------------------------------------------------ jmatches computes what Denotes says *)
Inductive Reach : jv -> loc -> jv -> Prop :=
| R_here v : Reach v [] v
| R_arr xs n c l d : nth_error xs n = Some c -> Reach c l d -> Reach (JArr xs) (SIdx n :: l) d
| R_obj kvs k c l d : In (k, c) kvs -> Reach c l d -> Reach (JObj kvs) (SKey k :: l) d.

Fixpoint nodes_arr (i : nat) (l : list jv) : list (loc * jv) :=
  match l with
  | [] => []
  | c :: r => map (shift (SIdx i)) (nodes c) ++ nodes_arr (S i) r
  end.

Lemma nodes_unfold v :
  nodes v = ([], v) :: match v with
                       | JArr l => nodes_arr 0 l
                       | JObj kvs => flat_map (fun kv => map (shift (SKey (fst kv))) (nodes (snd kv))) kvs
                       | _ => []
                       end.
Proof.
  destruct v; reflexivity.
Qed.

Lemma in_shift s l d ms : In (l, d) (map (shift s) ms) <-> exists l', l = s :: l' /\ In (l', d) ms.
Proof.
  rewrite in_map_iff. split.
  - intros ([l' d'] & E & Hin). unfold shift in E. cbn [fst snd] in E. injection E as <- <-. exists l'. auto.
  - intros (l' & -> & Hin). exists (l', d). split; [reflexivity | exact Hin].
Qed.

Lemma in_nodes_arr (P : jv -> Prop) xs :
  Forall (fun c => forall l d, In (l, d) (nodes c) <-> Reach c l d) xs ->
  forall i l d, In (l, d) (nodes_arr i xs) <->
                exists n c l', nth_error xs n = Some c /\ l = SIdx (i + n) :: l' /\ Reach c l' d.
Proof.
  induction 1 as [|c r Hc _ IH]; intros i l d; cbn [nodes_arr].
  - split; [contradiction|]. intros (n & c & l' & H & _). destruct n; discriminate.
  - rewrite in_app_iff, in_shift, IH. split.
    + intros [(l' & -> & Hin)|(n & c' & l' & Hn & -> & Hr)].
      * exists 0%nat, c, l'. rewrite Nat.add_0_r. repeat split. apply Hc, Hin.
      * exists (S n), c', l'. replace (i + S n)%nat with (S i + n)%nat by lia. auto.
    + intros (n & c' & l' & Hn & -> & Hr). destruct n as [|n].
      * left. cbn [nth_error] in Hn. injection Hn as <-. exists l'. rewrite Nat.add_0_r. split; [reflexivity|]. apply Hc, Hr.
      * right. exists n, c', l'. replace (S i + n)%nat with (i + S n)%nat by lia. auto.
Qed.

Lemma nodes_reach v : forall l d, In (l, d) (nodes v) <-> Reach v l d.
Proof.
  induction v as [| | | |xs IH|kvs IH] using jv_ind'; intros l d; rewrite nodes_unfold; cbn [In];
    try (split; [intros [E|[]]; injection E as <- <-; constructor | intro R; inversion R; subst; left; reflexivity]).
  - rewrite (in_nodes_arr (fun _ => True) xs IH 0 l d). split.
    + intros [E|(n & c & l' & Hn & -> & Hr)]; [injection E as <- <-; constructor|]. cbn [Nat.add]. econstructor; eassumption.
    + intro R. inversion R; subst; [left; reflexivity|]. right. exists n, c, l0. cbn [Nat.add]. auto.
  - rewrite in_flat_map. split.
    + intros [E|([k c] & Hin & Hm)]; [injection E as <- <-; constructor|].
      cbn [fst snd] in Hm. apply in_shift in Hm. destruct Hm as (l' & -> & Hl).
      rewrite Forall_forall in IH. apply (IH (k, c) Hin) in Hl. econstructor; eassumption.
    + intro R. inversion R; subst; [left; reflexivity|]. right. exists (k, c). split; [assumption|].
      cbn [fst snd]. apply in_shift. exists l0. split; [reflexivity|]. rewrite Forall_forall in IH. apply (IH (k, c)); assumption.
Qed.

Lemma desc_reach rest v l d L : Reach v l d -> Denotes rest d L -> Denotes (Desc :: rest) v (l ++ L).
Proof.
  induction 1 as [v|xs n c l d Hn _ IH|kvs k c l d Hin _ IH]; intro HD; cbn [app].
  - apply D_desc_here, HD.
  - eapply D_desc_arr; [eassumption | apply IH, HD].
  - eapply D_desc_obj; [eassumption | apply IH, HD].
Qed.

Lemma desc_reach_inv rest v L : Denotes (Desc :: rest) v L ->
  exists l d L', Reach v l d /\ Denotes rest d L' /\ L = l ++ L'.
Proof.
  remember (Desc :: rest) as fs eqn:E. induction 1 as [| | | | |rest0 v L HD _|rest0 xs n c L Hn HD IH|rest0 kvs k c L Hin HD IH];
    try discriminate; injection E as ->.
  - exists [], v, L. repeat split; [constructor | exact HD].
  - destruct (IH eq_refl) as (l & d & L' & R & D & ->). exists (SIdx n :: l), d, L'. repeat split; [econstructor; eassumption | exact D].
  - destruct (IH eq_refl) as (l & d & L' & R & D & ->). exists (SKey k :: l), d, L'. repeat split; [econstructor; eassumption | exact D].
Qed.

Lemma in_indexed xs : forall i s c, In (s, c) (indexed i xs) <-> exists n, s = SIdx (i + n) /\ nth_error xs n = Some c.
Proof.
  induction xs as [|x r IH]; intros i s c; cbn [indexed In].
  - split; [contradiction|]. intros (n & _ & H). destruct n; discriminate.
  - rewrite IH. split.
    + intros [E|(n & -> & Hn)]; [injection E as <- <-; exists 0%nat; rewrite Nat.add_0_r; auto|].
      exists (S n). replace (i + S n)%nat with (S i + n)%nat by lia. auto.
    + intros (n & -> & Hn). destruct n as [|n]; [left; cbn [nth_error] in Hn; injection Hn as <-; rewrite Nat.add_0_r; reflexivity|].
      right. exists n. replace (S i + n)%nat with (i + S n)%nat by lia. auto.
Qed.

Lemma in_jmatches_cons f rest v L c :
  In (L, c) (jmatches (f :: rest) v) <->
  exists l0 c0 L', In (l0, c0) (step_matches f v) /\ In (L', c) (jmatches rest c0) /\ L = l0 ++ L'.
Proof.
  cbn [jmatches]. rewrite in_flat_map. split.
  - intros ([l0 c0] & H0 & H1). apply in_map_iff in H1. destruct H1 as ([L' c'] & E & H1).
    cbn [fst snd] in E. injection E as <- <-. exists l0, c0, L'. auto.
  - intros (l0 & c0 & L' & H0 & H1 & ->). exists (l0, c0). split; [exact H0|].
    apply in_map_iff. exists (L', c). split; [reflexivity | exact H1].
Qed.

Lemma jm_sound : forall fs v L c, In (L, c) (jmatches fs v) -> Denotes fs v L.
Proof.
  induction fs as [|f rest IH]; intros v L c H.
  - cbn [jmatches In] in H. destruct H as [E|[]]. injection E as <- _. constructor.
  - apply in_jmatches_cons in H. destruct H as (l0 & c0 & L' & H0 & H1 & ->). apply IH in H1.
    destruct f as [k|i| |]; cbn [step_matches] in H0.
    + destruct v; try contradiction. destruct (lookup k kvs) as [c1|] eqn:Lk; [|contradiction].
      destruct H0 as [E|[]]. injection E as <- <-. cbn [app]. econstructor; eassumption.
    + destruct v; try contradiction. destruct (norm_index i (length l)) as [n|] eqn:Ni; [|contradiction].
      destruct (nth_error l n) as [c1|] eqn:Nn; [|contradiction].
      destruct H0 as [E|[]]. injection E as <- <-. cbn [app]. econstructor; eassumption.
    + apply in_map_iff in H0. destruct H0 as ([s c1] & E & Hm). cbn [fst snd] in E. injection E as <- <-.
      destruct v; cbn [members] in Hm; try contradiction.
      * apply in_indexed in Hm. destruct Hm as (n & -> & Hn). cbn [app Nat.add]. econstructor; eassumption.
      * apply in_map_iff in Hm. destruct Hm as ([k c2] & E & Hin). cbn [fst snd] in E. injection E as <- <-.
        cbn [app]. econstructor; eassumption.
    + apply nodes_reach in H0. eapply desc_reach; eassumption.
Qed.

Lemma jm_complete : forall fs v L, Denotes fs v L -> exists c, In (L, c) (jmatches fs v).
Proof.
  intros fs v L H. induction H as [v|k rest kvs c L Lk _ IH|i rest xs n c L Ni Nn _ IH|rest xs n c L Nn _ IH
                                   |rest kvs k c L Hin _ IH|rest v L _ IH|rest xs n c L Nn HD IH|rest kvs k c L Hin HD IH].
  - exists v. left. reflexivity.
  - destruct IH as [d Hd]. exists d. apply in_jmatches_cons. exists [SKey k], c, L.
    cbn [step_matches]. rewrite Lk. repeat split; [left; reflexivity | exact Hd].
  - destruct IH as [d Hd]. exists d. apply in_jmatches_cons. exists [SIdx n], c, L.
    cbn [step_matches]. rewrite Ni, Nn. repeat split; [left; reflexivity | exact Hd].
  - destruct IH as [d Hd]. exists d. apply in_jmatches_cons. exists [SIdx n], c, L. repeat split; [|exact Hd].
    cbn [step_matches members]. apply in_map_iff. exists (SIdx n, c). split; [reflexivity|]. apply in_indexed. exists n. auto.
  - destruct IH as [d Hd]. exists d. apply in_jmatches_cons. exists [SKey k], c, L. repeat split; [|exact Hd].
    cbn [step_matches members]. apply in_map_iff. exists (SKey k, c). split; [reflexivity|].
    apply in_map_iff. exists (k, c). split; [reflexivity | exact Hin].
  - destruct IH as [d Hd]. exists d. apply in_jmatches_cons. exists [], v, L. repeat split; [|exact Hd].
    cbn [step_matches]. apply nodes_reach. constructor.
  - destruct IH as [d Hd]. exists d. apply in_jmatches_cons in Hd. destruct Hd as (l0 & c0 & L' & H0 & H1 & ->).
    apply in_jmatches_cons. exists (SIdx n :: l0), c0, L'. repeat split; [|exact H1].
    cbn [step_matches] in *. apply nodes_reach. apply nodes_reach in H0. econstructor; eassumption.
  - destruct IH as [d Hd]. exists d. apply in_jmatches_cons in Hd. destruct Hd as (l0 & c0 & L' & H0 & H1 & ->).
    apply in_jmatches_cons. exists (SKey k :: l0), c0, L'. repeat split; [|exact H1].
    cbn [step_matches] in *. apply nodes_reach. apply nodes_reach in H0. econstructor; eassumption.
Qed.

Lemma in_matches_iff fs v L : In L (rev (map fst (jmatches fs v))) <-> Denotes fs v L.
Proof.
  rewrite <- in_rev, in_map_iff. split.
  - intros ([L' c] & E & H). cbn [fst] in E. subst L'. eapply jm_sound, H.
  - intro H. destruct (jm_complete fs v L H) as [c Hc]. exists (L, c). auto.
Qed.

(* ------------------------------------------------------------------ well-formed records *)
Lemma wf_arr xs : wf (JArr xs) -> forall n c, nth_error xs n = Some c -> wf c.
Proof.
  cbn [wf]. induction xs as [|x r IH]; intros H n c Hn; [destruct n; discriminate|].
  destruct H as [Hx Hr]. destruct n as [|n]; cbn [nth_error] in Hn; [injection Hn as <-; exact Hx | exact (IH Hr n c Hn)].
Qed.

Lemma wf_obj_in kvs : wf (JObj kvs) -> forall k c, In (k, c) kvs -> lookup k kvs = Some c /\ wf c.
Proof.
  cbn [wf]. intros [Hnd Hall]. induction kvs as [|[k' c'] r IH]; intros k c Hin; [contradiction|].
  cbn [map fst] in Hnd. apply NoDup_cons_iff in Hnd. destruct Hnd as [Hnot Hnd]. destruct Hall as [Hc Hall]. cbn [snd] in Hc.
  cbn [lookup]. destruct Hin as [E|Hin].
  - injection E as -> ->. rewrite bytes_eqb_refl. auto.
  - destruct (bytes_eqb k k') eqn:E.
    + apply bytes_eqb_eq in E. subst k'. exfalso. apply Hnot. apply in_map_iff. exists (k, c). auto.
    + apply IH; assumption.
Qed.

Lemma lookup_in k kvs c : lookup k kvs = Some c -> In (k, c) kvs.
Proof.
  induction kvs as [|[k' c'] r IH]; cbn [lookup]; [discriminate|].
  destruct (bytes_eqb k k') eqn:E; [|intro H; right; exact (IH H)].
  apply bytes_eqb_eq in E. subst k'. intro H. injection H as ->. left. reflexivity.
Qed.

Lemma wf_obj_lookup kvs : wf (JObj kvs) -> forall k c, lookup k kvs = Some c -> wf c.
Proof. intros H k c Hl. exact (proj2 (wf_obj_in kvs H k c (lookup_in _ _ _ Hl))). Qed.

Section PartA.
  Variable parse : bytes -> option jv.
  Variable b64d : bytes -> option bytes.
  Hypothesis Hmark : decode parse b64d REDACTED = None.
  Notation sub := (sub parse b64d).

  (* a denoted location exists in the record, holds the matched value, and crosses no hop *)
  Lemma reach_sub v l d : wf v -> Reach v l d -> sub v l = Some d /\ wf d /\ hopfree l.
  Proof.
    intros Hw R. induction R as [v|xs n c l d Hn _ IH|kvs k c l d Hin _ IH].
    - repeat split; [exact Hw | constructor].
    - destruct (IH (wf_arr xs Hw n c Hn)) as (S & W & F). cbn [RedactSpec.sub]. rewrite Hn.
      repeat split; [exact S | exact W | constructor; [discriminate | exact F]].
    - destruct (wf_obj_in kvs Hw k c Hin) as [Lk Wc]. destruct (IH Wc) as (S & W & F). cbn [RedactSpec.sub]. rewrite Lk.
      repeat split; [exact S | exact W | constructor; [discriminate | exact F]].
  Qed.

  Lemma sub_app v A : forall B, sub v (A ++ B) = match sub v A with Some c => sub c B | None => None end.
  Proof.
    revert v. induction A as [|s A IH]; intros v B; [reflexivity|].
    cbn [app RedactSpec.sub]. destruct s, v; try reflexivity.
    - destruct (lookup k kvs); [apply IH | reflexivity].
    - destruct (nth_error l n); [apply IH | reflexivity].
    - destruct (decode parse b64d s); [apply IH | reflexivity].
  Qed.

  Lemma hopfree_app A B : hopfree A -> hopfree B -> hopfree (A ++ B).
  Proof. unfold hopfree. intros. apply Forall_app. auto. Qed.

  Lemma jm_sub : forall fs v L c, wf v -> In (L, c) (jmatches fs v) -> sub v L = Some c /\ wf c /\ hopfree L.
  Proof.
    induction fs as [|f rest IH]; intros v L c Hw H.
    - destruct H as [E|[]]. injection E as <- <-. repeat split; [exact Hw | constructor].
    - apply in_jmatches_cons in H. destruct H as (l0 & c0 & L' & H0 & H1 & ->).
      assert (R : Reach v l0 c0).
      { destruct f as [k|i| |]; cbn [step_matches] in H0.
        - destruct v; try contradiction. destruct (lookup k kvs) as [c1|] eqn:Lk; [|contradiction].
          destruct H0 as [E|[]]. injection E as <- <-. econstructor; [apply lookup_in, Lk | constructor].
        - destruct v; try contradiction. destruct (norm_index i (length l)) as [n|]; [|contradiction].
          destruct (nth_error l n) as [c1|] eqn:Nn; [|contradiction].
          destruct H0 as [E|[]]. injection E as <- <-. econstructor; [exact Nn | constructor].
        - apply in_map_iff in H0. destruct H0 as ([s c1] & E & Hm). cbn [fst snd] in E. injection E as <- <-.
          destruct v; cbn [members] in Hm; try contradiction.
          + apply in_indexed in Hm. destruct Hm as (n & -> & Hn). econstructor; [exact Hn | constructor].
          + apply in_map_iff in Hm. destruct Hm as ([k c2] & E & Hin). cbn [fst snd] in E. injection E as <- <-.
            econstructor; [exact Hin | constructor].
        - apply nodes_reach, H0. }
      destruct (reach_sub v l0 c0 Hw R) as (S0 & W0 & F0).
      destruct (IH c0 L' c W0 H1) as (S1 & W1 & F1).
      rewrite sub_app, S0. repeat split; [exact S1 | exact W1 | apply hopfree_app; assumption].
  Qed.

  Lemma denotes_sub fs v L : wf v -> Denotes fs v L -> sub v L <> None /\ hopfree L.
  Proof.
    intros Hw HD. destruct (jm_complete fs v L HD) as [c Hc]. destruct (jm_sub fs v L c Hw Hc) as (S & _ & F).
    split; [congruence | exact F].
  Qed.

  (* setMatches with the marker: the four clauses for the locations the path denotes *)
  Theorem setm_clauses fs v : wf v ->
    marker_at_denoted parse b64d (Denotes fs v) (setm MARK fs v)
    /\ frame parse b64d (Denotes fs v) v (setm MARK fs v)
    /\ leaves_from_original parse b64d v (setm MARK fs v)
    /\ no_location_added parse b64d v (setm MARK fs v).
  Proof.
    intro Hw. rewrite setm_mark. set (D := rev (map fst (jmatches fs v))).
    repeat split.
    - intros L HL. destruct (denotes_sub fs v L Hw HL) as [S F].
      destruct (mark_marker parse b64d L v D F (proj2 (in_matches_iff fs v L) HL) S) as (L0 & Lr & E & H0 & HM).
      exists L0, Lr. repeat split; [exact E | apply in_matches_iff, H0 | exact HM].
    - intros L x S Hd. apply mark_frame; [exact S|]. intros d Hin. apply Hd, in_matches_iff, Hin.
    - intros L x S [Hl _]. eapply mark_leaves; eassumption.
    - intros L S. eapply mark_no_new; eassumption.
  Qed.
End PartA.

(* ------------------------------------------------------------------ writing one value through one location *)
Lemma set_nth_nth n g l : forall m, nth_error (set_nth n g l) m =
  if Nat.eqb n m then option_map g (nth_error l m) else nth_error l m.
Proof.
  revert n. induction l as [|x r IH]; intros n m.
  - assert (E : set_nth n g [] = []) by (destruct n; reflexivity). rewrite E.
    destruct m; cbn [nth_error option_map]; destruct (Nat.eqb n _); reflexivity.
  - destruct n as [|n], m as [|m]; cbn [set_nth nth_error Nat.eqb option_map]; try reflexivity. apply IH.
Qed.

Lemma lookup_set_key k g kvs k' : lookup k' (set_key k g kvs) =
  if bytes_eqb k k' then option_map g (lookup k' kvs) else lookup k' kvs.
Proof.
  unfold set_key. induction kvs as [|[k0 c] r IH]; [destruct (bytes_eqb k k'); reflexivity|].
  cbn [map fst snd]. destruct (bytes_eqb k k0) eqn:E0; cbn [lookup fst snd].
  - apply bytes_eqb_eq in E0. subst k0. destruct (bytes_eqb k' k) eqn:E1.
    + apply bytes_eqb_eq in E1. subst k'. rewrite bytes_eqb_refl. reflexivity.
    + exact IH.
  - destruct (bytes_eqb k' k0) eqn:E1; [|exact IH].
    apply bytes_eqb_eq in E1. subst k0. rewrite E0. reflexivity.
Qed.

Lemma set_nth_idem n g l : (forall v, g (g v) = g v) -> set_nth n g (set_nth n g l) = set_nth n g l.
Proof.
  intro Hg. revert n. induction l as [|x r IH]; intro n; [destruct n; reflexivity|].
  destruct n; cbn [set_nth]; [rewrite Hg | rewrite IH]; reflexivity.
Qed.

Lemma set_key_idem k g kvs : (forall v, g (g v) = g v) -> set_key k g (set_key k g kvs) = set_key k g kvs.
Proof.
  intro Hg. unfold set_key. rewrite map_map. apply map_ext. intros [k0 c]. cbn [fst snd].
  destruct (bytes_eqb k k0) eqn:E; cbn [fst snd]; rewrite E; [rewrite Hg|]; reflexivity.
Qed.

Lemma set_at_idem x : forall L v, set_at x L (set_at x L v) = set_at x L v.
Proof.
  induction L as [|s L IH]; intro v; [reflexivity|].
  destruct s, v; cbn [set_at]; try reflexivity.
  - rewrite set_key_idem by exact IH. reflexivity.
  - rewrite set_nth_idem by exact IH. reflexivity.
Qed.

Lemma fold_set_same x L1 : forall (ms : list (loc * jv)) v, (forall m, In m ms -> fst m = L1) -> ms <> [] ->
  fold_left (fun acc m => set_at x (fst m) acc) ms v = set_at x L1 v.
Proof.
  induction ms as [|m ms IH]; intros v Hall Hne; [congruence|].
  cbn [fold_left]. rewrite (Hall m (or_introl eq_refl)).
  destruct ms as [|m' ms']; [reflexivity|].
  rewrite IH; [apply set_at_idem | intros m0 H0; apply Hall; right; exact H0 | discriminate].
Qed.

Lemma loc_cases : forall A B : loc,
  (exists R, B = A ++ R) \/ (exists s R, A = B ++ s :: R) \/ ~ comparable A B.
Proof.
  induction A as [|a A IH]; intro B.
  - left. exists B. reflexivity.
  - destruct B as [|b B].
    + right. left. exists a, A. reflexivity.
    + destruct (step_eqb a b) eqn:E.
      * apply step_eqb_eq in E. subst b. destruct (IH B) as [(R & ->)|[(s & R & ->)|N]].
        -- left. exists R. reflexivity.
        -- right. left. exists s, R. reflexivity.
        -- right. right. intros [[R E]|[R E]]; injection E as E; apply N; [left|right]; exists R; exact E.
      * right. right. intros [[R E']|[R E']]; injection E' as E1 _; subst; rewrite step_eqb_refl in E; discriminate.
Qed.

Section PartB.
  Variable parse : bytes -> option jv.
  Variable render : jv -> bytes.
  Variable b64d : bytes -> option bytes.
  Variable b64e : bytes -> bytes.
  Variable xml_redact : bytes -> bytes -> option bytes.
  Notation sub := (sub parse b64d).
  Notation decode := (decode parse b64d).

  Lemma sub_set_at_same x : forall L v, hopfree L -> sub v L <> None -> sub (set_at x L v) L = Some x.
  Proof.
    induction L as [|s L IH]; intros v Hf Hs; [reflexivity|].
    pose proof (Forall_inv Hf) as H0. pose proof (Forall_inv_tail Hf) as Hf'. cbn beta in H0.
    cbn [RedactSpec.sub] in Hs. destruct s as [k|n|]; [| |congruence]; destruct v; try congruence; cbn [set_at RedactSpec.sub].
    - rewrite lookup_set_key, bytes_eqb_refl. destruct (lookup k kvs) as [c|]; [|congruence]. cbn [option_map]. apply IH; assumption.
    - rewrite set_nth_nth, Nat.eqb_refl. destruct (nth_error l n) as [c|]; [|congruence]. cbn [option_map]. apply IH; assumption.
  Qed.

  Lemma comparable_cons_inv s A B : comparable (s :: A) (s :: B) -> comparable A B.
  Proof. intros [[R E]|[R E]]; injection E as E; [left|right]; exists R; exact E. Qed.

  Lemma sub_set_at_other x : forall L1 L v, ~ comparable L1 L -> sub (set_at x L1 v) L = sub v L.
  Proof.
    induction L1 as [|s L1 IH]; intros L v N.
    - exfalso. apply N. left. exists L. reflexivity.
    - destruct L as [|s' L]; [exfalso; apply N; right; exists (s :: L1); reflexivity|].
      destruct s as [k|n|], v; cbn [set_at]; try reflexivity; destruct s' as [k'|n'|]; cbn [RedactSpec.sub]; try reflexivity.
      + rewrite lookup_set_key. destruct (bytes_eqb k k') eqn:E; [|reflexivity].
        apply bytes_eqb_eq in E. subst k'. destruct (lookup k kvs) as [c|]; [|reflexivity]. cbn [option_map].
        apply IH. intro C. apply N. apply comparable_cons. exact C.
      + rewrite set_nth_nth. destruct (Nat.eqb n n') eqn:E; [|reflexivity].
        apply Nat.eqb_eq in E. subst n'. destruct (nth_error l n) as [c|]; [|reflexivity]. cbn [option_map].
        apply IH. intro C. apply N. apply comparable_cons. exact C.
  Qed.

  Lemma sub_prefix v A B : sub v (A ++ B) <> None -> sub v A <> None.
  Proof. rewrite sub_app. destruct (sub v A); congruence. Qed.

  (* a strict prefix of the written location still exists after the write *)
  Lemma sub_set_at_above x : forall A s R v, sub v A <> None -> sub (set_at x (A ++ s :: R) v) A <> None.
  Proof.
    induction A as [|a A IH]; intros s R v Hs; [discriminate|].
    cbn [app]. cbn [RedactSpec.sub] in Hs. destruct a as [k|n|], v; cbn [set_at]; try exact Hs; cbn [RedactSpec.sub].
    - rewrite lookup_set_key, bytes_eqb_refl. destruct (lookup k kvs) as [c|]; [|congruence]. cbn [option_map]. apply IH, Hs.
    - rewrite set_nth_nth, Nat.eqb_refl. destruct (nth_error l n) as [c|]; [|congruence]. cbn [option_map]. apply IH, Hs.
  Qed.

  Definition is_container (v : jv) : bool := match v with JArr _ | JObj _ => true | _ => false end.

  Lemma set_at_container x s L v : is_container (set_at x (s :: L) v) = is_container v.
  Proof. destruct s, v; reflexivity. Qed.
End PartB.

Section HopStep.
  Variable parse : bytes -> option jv.
  Variable b64d : bytes -> option bytes.
  Notation sub := (sub parse b64d).
  Notation decode := (decode parse b64d).

  Definition clauses (D : loc -> Prop) (r r' : jv) : Prop :=
    marker_at_denoted parse b64d D r' /\ frame parse b64d D r r'
    /\ leaves_from_original parse b64d r r' /\ no_location_added parse b64d r r'.

  Lemma clauses_ext (D D' : loc -> Prop) r r' : (forall L, D L <-> D' L) -> clauses D r r' -> clauses D' r r'.
  Proof.
    intros E (C1 & C2 & C3 & C4). repeat split; try assumption.
    - intros L HL. destruct (C1 L (proj2 (E L) HL)) as (L0 & Lr & E0 & H0 & HM). exists L0, Lr. repeat split; [exact E0 | apply E, H0 | exact HM].
    - intros L x S Hd. apply C2; [exact S|]. intros d Hin. apply Hd, E, Hin.
  Qed.

  Lemma sub_set_at_above_eq x : forall A s R v, hopfree A ->
    sub (set_at x (A ++ s :: R) v) A = option_map (set_at x (s :: R)) (sub v A).
  Proof.
    induction A as [|a A IH]; intros s R v Hf; [reflexivity|].
    pose proof (Forall_inv Hf) as H0. pose proof (Forall_inv_tail Hf) as Hf'. cbn beta in H0.
    cbn [app]. destruct a as [k|n|]; [| |congruence]; destruct v; cbn [set_at RedactSpec.sub option_map]; try reflexivity.
    - rewrite lookup_set_key, bytes_eqb_refl. destruct (lookup k kvs) as [c|]; [|reflexivity]. cbn [option_map]. apply IH, Hf'.
    - rewrite set_nth_nth, Nat.eqb_refl. destruct (nth_error l n) as [c|]; [|reflexivity]. cbn [option_map]. apply IH, Hf'.
  Qed.

  Lemma sub_step_container c s R : sub c (s :: R) <> None -> s <> SHop -> is_container c = true.
  Proof. destruct s, c; cbn [RedactSpec.sub is_container]; congruence. Qed.

  Lemma comparable_app A B C : comparable B C -> comparable (A ++ B) (A ++ C).
  Proof. intros [[R ->]|[R ->]]; [left|right]; exists R; rewrite app_assoc; reflexivity. Qed.

  Lemma hop_clauses r L1 s inner inner' s' (D2 : loc -> Prop) :
    hopfree L1 -> sub r L1 = Some (JStr s) -> decode s = Some inner -> decode s' = Some inner' ->
    (exists L2, D2 L2) -> clauses D2 inner inner' ->
    clauses (fun L => exists L2, L = L1 ++ SHop :: L2 /\ D2 L2) r (set_at (JStr s') L1 r).
  Proof.
    intros Hf S1 Dec Dec' [Lw Hw] (C1 & C2 & C3 & C4).
    set (r' := set_at (JStr s') L1 r).
    assert (F1 : sub r' L1 = Some (JStr s')) by (apply sub_set_at_same; [exact Hf | congruence]).
    assert (F2 : forall B, sub r' (L1 ++ SHop :: B) = sub inner' B).
    { intro B. rewrite sub_app, F1. cbn [RedactSpec.sub]. rewrite Dec'. reflexivity. }
    assert (F3 : forall B, sub r (L1 ++ SHop :: B) = sub inner B).
    { intro B. rewrite sub_app, S1. cbn [RedactSpec.sub]. rewrite Dec. reflexivity. }
    assert (Fo : forall s0 R, s0 <> SHop -> sub r (L1 ++ s0 :: R) = None).
    { intros s0 R Hs. rewrite sub_app, S1. destruct s0; cbn [RedactSpec.sub]; congruence. }
    assert (Fo' : forall s0 R, s0 <> SHop -> sub r' (L1 ++ s0 :: R) = None).
    { intros s0 R Hs. rewrite sub_app, F1. destruct s0; cbn [RedactSpec.sub]; congruence. }
    repeat split.
    - intros L (L2 & -> & H2). destruct (C1 L2 H2) as (L0 & Lr & -> & H0 & HM).
      exists (L1 ++ SHop :: L0), Lr. repeat split.
      + rewrite <- app_assoc. reflexivity.
      + exists L0. auto.
      + rewrite F2. exact HM.
    - intros L x S Hd. destruct (loc_cases L1 L) as [(R & ->)|[(s0 & R & E)|N]].
      + destruct R as [|s0 R].
        * exfalso. apply (Hd (L1 ++ SHop :: Lw)); [exists Lw; auto|]. right. exists (SHop :: Lw). rewrite app_nil_r. reflexivity.
        * destruct (step_eqb s0 SHop) eqn:E0.
          -- apply step_eqb_eq in E0. subst s0. rewrite F2. rewrite F3 in S. apply C2; [exact S|].
             intros d Hdd C. apply (Hd (L1 ++ SHop :: d)); [exists d; auto|].
             apply comparable_app. apply comparable_cons. exact C.
          -- rewrite Fo in S; [discriminate|]. intro E1. subst s0. discriminate.
      + exfalso. apply (Hd (L1 ++ SHop :: Lw)); [exists Lw; auto|]. right. exists (s0 :: R ++ SHop :: Lw).
        rewrite E, <- app_assoc. reflexivity.
      + unfold r'. rewrite sub_set_at_other by exact N. exact S.
    - intros L x S U. destruct (loc_cases L1 L) as [(R & ->)|[(s0 & R & E)|N]].
      + destruct R as [|s0 R].
        * rewrite app_nil_r, F1 in S. injection S as <-. destruct U as [_ U]. rewrite (U s' eq_refl) in Dec'. discriminate.
        * destruct (step_eqb s0 SHop) eqn:E0.
          -- apply step_eqb_eq in E0. subst s0. rewrite F2 in S. destruct (C3 R x S U) as [->|S']; [left; reflexivity|].
             right. rewrite F3. exact S'.
          -- rewrite Fo' in S; [discriminate|]. intro E1. subst s0. discriminate.
      + exfalso. unfold r' in S.
        assert (HfL : hopfree L /\ s0 <> SHop).
        { rewrite E in Hf. apply Forall_app in Hf. destruct Hf as [HfL Hf]. split; [exact HfL | exact (Forall_inv Hf)]. }
        destruct HfL as [HfL Hs0]. rewrite E, sub_set_at_above_eq in S by exact HfL.
        assert (Sc : sub r (L ++ s0 :: R) <> None) by (rewrite <- E; congruence).
        rewrite sub_app in Sc. destruct (sub r L) as [c|]; [|discriminate].
        assert (Ex : x = set_at (JStr s') (s0 :: R) c) by (cbn [option_map] in S; congruence).
        destruct U as [U _]. pose proof (sub_step_container c s0 R Sc Hs0) as Hc.
        pose proof (set_at_container (JStr s') s0 R c) as Hk. rewrite <- Ex, Hc in Hk.
        destruct x; cbn [is_container] in Hk; try discriminate; exact U.
      + right. unfold r' in S. rewrite sub_set_at_other in S by exact N. exact S.
    - intros L S. destruct (loc_cases L1 L) as [(R & ->)|[(s0 & R & E)|N]].
      + destruct R as [|s0 R]; [rewrite app_nil_r; congruence|].
        destruct (step_eqb s0 SHop) eqn:E0.
        * apply step_eqb_eq in E0. subst s0. rewrite F2 in S. rewrite F3. apply C4, S.
        * rewrite Fo' in S; [congruence|]. intro E1. subst s0. discriminate.
      + apply (sub_prefix parse b64d r L (s0 :: R)). rewrite <- E. congruence.
      + unfold r' in S. rewrite sub_set_at_other in S by exact N. exact S.
  Qed.
End HopStep.

(* ------------------------------------------------------------------ paths the model covers *)
Lemma step_loc_single f v l0 c0 : f <> Desc -> In (l0, c0) (step_matches f v) -> exists s, l0 = [s].
Proof.
  intros Hf H. destruct f as [k|i| |]; [| | |congruence]; cbn [step_matches] in H.
  - destruct v; try contradiction. destruct (lookup k kvs); [|contradiction]. destruct H as [E|[]]. injection E as <- _. eauto.
  - destruct v; try contradiction. destruct (norm_index i (length l)); [|contradiction].
    destruct (nth_error l n); [|contradiction]. destruct H as [E|[]]. injection E as <- _. eauto.
  - apply in_map_iff in H. destruct H as (m & E & _). injection E as <- _. eauto.
Qed.

Lemma path_ok_locs : forall fs v L c, path_ok fs = true -> In (L, c) (jmatches fs v) -> L <> [].
Proof.
  induction fs as [|f rest IH]; intros v L c Hok H; [discriminate|].
  apply in_jmatches_cons in H. destruct H as (l0 & c0 & L' & H0 & H1 & ->).
  destruct rest as [|g rest'].
  - assert (Hf : f <> Desc) by (intro E; subst f; discriminate).
    destruct (step_loc_single f v l0 c0 Hf H0) as [s ->]. discriminate.
  - assert (HL' : L' <> []) by (eapply IH; [exact Hok | exact H1]).
    intro E. apply app_eq_nil in E. destruct E as [_ E]. exact (HL' E).
Qed.

Lemma fold_set_container x : forall (ms : list (loc * jv)) v, (forall m, In m ms -> fst m <> []) ->
  is_container (fold_left (fun acc m => set_at x (fst m) acc) ms v) = is_container v.
Proof.
  induction ms as [|m ms IH]; intros v H; [reflexivity|]. cbn [fold_left].
  rewrite IH by (intros m0 H0; apply H; right; exact H0).
  destruct (fst m) as [|s L] eqn:E; [exfalso; exact (H m (or_introl eq_refl) E)|]. apply set_at_container.
Qed.

Lemma setm_container x fs v : path_ok fs = true -> is_container (setm x fs v) = is_container v.
Proof.
  intro Hok. unfold setm. apply fold_set_container. intros [L c] Hin. cbn [fst]. eapply path_ok_locs; eassumption.
Qed.

Section PartBMain.
  Variable parse : bytes -> option jv.
  Variable render : jv -> bytes.
  Variable b64d : bytes -> option bytes.
  Variable b64e : bytes -> bytes.
  Variable xml_redact : bytes -> bytes -> option bytes.
  (* contracts of the nested-document libraries *)
  Hypothesis Hmark : decode parse b64d REDACTED = None.
  Hypothesis Hparse_render : forall v, parse (render v) = Some v.
  Hypothesis Hb64 : forall t, b64d (b64e t) = Some t.
  Hypothesis Hnot64 : forall v, is_container v = true -> b64d (render v) = None.
  Hypothesis Hparse_wf : forall t v, parse t = Some v -> wf v.

  Notation sub := (sub parse b64d).
  Notation decode := (decode parse b64d).
  Notation rrec := (redact_rec parse render b64d b64e xml_redact).
  Notation DArg := (DenotesArg parse b64d).

  Definition ok_arg (a : list seg) : Prop := Forall (fun p => sxml p = None /\ path_ok (sjp p) = true) a.

  Lemma matches_container fs v : wf v -> path_ok fs = true -> jmatches fs v <> [] -> is_container v = true.
  Proof.
    intros Hw Hok Hne. destruct (jmatches fs v) as [|[L c] ms] eqn:J; [congruence|].
    assert (Hin : In (L, c) (jmatches fs v)) by (rewrite J; left; reflexivity).
    destruct (jm_sub parse b64d fs v L c Hw Hin) as (S & _ & F).
    pose proof (path_ok_locs fs v L c Hok Hin) as HL. destruct L as [|s L]; [congruence|].
    apply (sub_step_container parse b64d v s L); [congruence | exact (Forall_inv F)].
  Qed.

  Theorem rrec_spec : forall a r, a <> [] -> ok_arg a -> wf r -> SingleHops parse b64d (map sjp a) r ->
    match rrec r a with
    | Some r' => (exists L, DArg (map sjp a) r L) /\ is_container r = true /\ is_container r' = true
                 /\ clauses parse b64d (DArg (map sjp a) r) r r'
    | None => forall L, ~ DArg (map sjp a) r L
    end.
  Proof.
    induction a as [|p a IH]; intros r Hne Hok Hw Hs; [congruence|]. clear Hne.
    pose proof (Forall_inv Hok) as [Hx Hp]. pose proof (Forall_inv_tail Hok) as Hok'.
    cbn [redact_rec map]. rewrite Hp, Hx. cbn [negb].
    destruct (jmatches (sjp p) r) as [|[L1 r0] ms] eqn:J.
    { (* no match *)
      intros L HD. inversion HD as [p0 v0 L0 HDn|p0 q0 rest0 v0 L10 t0 inner0 L20 HDn]; subst;
        destruct (jm_complete _ _ _ HDn) as [c Hc]; rewrite J in Hc; exact Hc. }
    assert (Hin1 : In (L1, r0) (jmatches (sjp p) r)) by (rewrite J; left; reflexivity).
    pose proof (jm_sound _ _ _ _ Hin1) as HD1.
    destruct (jm_sub parse b64d _ _ _ _ Hw Hin1) as (S1 & W0 & F1).
    assert (Hcont : is_container r = true) by (apply (matches_container (sjp p) r Hw Hp); rewrite J; discriminate).
    destruct a as [|q rest].
    - (* last piece: the marker goes to every match *)
      cbn [map]. refine (conj _ (conj _ (conj _ _))).
      + exists L1. constructor. exact HD1.
      + exact Hcont.
      + rewrite setm_container by exact Hp. exact Hcont.
      + apply (clauses_ext parse b64d (Denotes (sjp p) r)).
        * intro L. split; [intro H; constructor; exact H | intro H; inversion H; subst; assumption].
        * unfold clauses. apply setm_clauses; assumption.
    - (* a json() hop *)
      cbn [map] in Hs |- *. inversion Hs as [|p0 q0 rest0 v0 Huniq Hinner]; subst.
      assert (Hinv : forall L, DArg (sjp p :: sjp q :: map sjp rest) r L ->
                     exists t inner L2, r0 = JStr t /\ decode t = Some inner /\ L = L1 ++ SHop :: L2
                                        /\ DArg (sjp q :: map sjp rest) inner L2).
      { intros L HD. inversion HD as [|p0 q0 rest0 v0 L10 t0 inner0 L20 HDn Hsub Hdec HDi]; subst.
        rewrite (Huniq _ _ HDn HD1) in *. rewrite S1 in Hsub. injection Hsub as ->. exists t0, inner0, L20. auto. }
      destruct r0 as [| | |s| |]; try (intros L HD; destruct (Hinv L HD) as (t & inner & L2 & E & _); discriminate).
      assert (Edec : decode s = parse (match b64d s with Some t => t | None => s end)) by reflexivity.
      destruct (b64d s) as [t0|] eqn:B.
      + (* base64-wrapped document *)
        destruct (parse t0) as [inner|] eqn:P.
        2:{ intros L HD. destruct (Hinv L HD) as (t & inner & L2 & E & Dc & _). injection E as <-. rewrite Edec in Dc. discriminate. }
        assert (Dec : decode s = Some inner) by exact Edec.
        specialize (IH inner (ltac:(discriminate)) Hok' (Hparse_wf _ _ P) (Hinner L1 s inner HD1 S1 Dec)).
        cbn [map] in IH. destruct (rrec inner (q :: rest)) as [inner'|].
        2:{ intros L HD. destruct (Hinv L HD) as (t & inner2 & L2 & E & Dc & _ & HDi). injection E as <-.
            rewrite Dec in Dc. injection Dc as <-. exact (IH L2 HDi). }
        destruct IH as ((Lw & HLw) & Ci & Ci' & Cl).
        assert (Dec' : decode (b64e (render inner')) = Some inner').
        { unfold RedactSpec.decode. rewrite Hb64. apply Hparse_render. }
        assert (Eset : setm (JStr (b64e (render inner'))) (sjp p) r = set_at (JStr (b64e (render inner'))) L1 r).
        { unfold setm. apply fold_set_same; [|rewrite J; discriminate].
          intros [L c] Hin. cbn [fst]. apply Huniq; [eapply jm_sound, Hin | exact HD1]. }
        rewrite Eset. refine (conj _ (conj _ (conj _ _))).
        * exists (L1 ++ SHop :: Lw). econstructor; eassumption.
        * exact Hcont.
        * destruct L1 as [|s1 L1']; [exfalso; exact (path_ok_locs _ _ _ _ Hp Hin1 eq_refl)|]. rewrite set_at_container. exact Hcont.
        * apply (clauses_ext parse b64d (fun L => exists L2, L = L1 ++ SHop :: L2 /\ DArg (sjp q :: map sjp rest) inner L2)).
          -- intro L. split.
             ++ intros (L2 & -> & H2). econstructor; eassumption.
             ++ intro HD. destruct (Hinv L HD) as (t & inner2 & L2 & E & Dc & -> & HDi). injection E as <-.
                rewrite Dec in Dc. injection Dc as <-. exists L2. auto.
          -- eapply hop_clauses; try eassumption. exists Lw. exact HLw.
      + (* plain document *)
        destruct (parse s) as [inner|] eqn:P.
        2:{ intros L HD. destruct (Hinv L HD) as (t & inner & L2 & E & Dc & _). injection E as <-. rewrite Edec in Dc. discriminate. }
        assert (Dec : decode s = Some inner) by exact Edec.
        specialize (IH inner (ltac:(discriminate)) Hok' (Hparse_wf _ _ P) (Hinner L1 s inner HD1 S1 Dec)).
        cbn [map] in IH. destruct (rrec inner (q :: rest)) as [inner'|].
        2:{ intros L HD. destruct (Hinv L HD) as (t & inner2 & L2 & E & Dc & _ & HDi). injection E as <-.
            rewrite Dec in Dc. injection Dc as <-. exact (IH L2 HDi). }
        destruct IH as ((Lw & HLw) & Ci & Ci' & Cl).
        assert (Dec' : decode (render inner') = Some inner').
        { unfold RedactSpec.decode. rewrite (Hnot64 inner' Ci'). apply Hparse_render. }
        assert (Eset : setm (JStr (render inner')) (sjp p) r = set_at (JStr (render inner')) L1 r).
        { unfold setm. apply fold_set_same; [|rewrite J; discriminate].
          intros [L c] Hin. cbn [fst]. apply Huniq; [eapply jm_sound, Hin | exact HD1]. }
        rewrite Eset. refine (conj _ (conj _ (conj _ _))).
        * exists (L1 ++ SHop :: Lw). econstructor; eassumption.
        * exact Hcont.
        * destruct L1 as [|s1 L1']; [exfalso; exact (path_ok_locs _ _ _ _ Hp Hin1 eq_refl)|]. rewrite set_at_container. exact Hcont.
        * apply (clauses_ext parse b64d (fun L => exists L2, L = L1 ++ SHop :: L2 /\ DArg (sjp q :: map sjp rest) inner L2)).
          -- intro L. split.
             ++ intros (L2 & -> & H2). econstructor; eassumption.
             ++ intro HD. destruct (Hinv L HD) as (t & inner2 & L2 & E & Dc & -> & HDi). injection E as <-.
                rewrite Dec in Dc. injection Dc as <-. exists L2. auto.
          -- eapply hop_clauses; try eassumption. exists Lw. exact HLw.
  Qed.
End PartBMain.
