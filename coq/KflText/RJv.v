(* Vocabulary shared by the model of redact (Redact.v) and its specification (RedactSpec.v):
   JSON values, the path fragments that redact can build, locations.  No model, no proofs. *)
Require Import V.Base.Prelude V.KflText.Macro.
Local Open Scope bool_scope.

Inductive jv :=
| JNull
| JBool (b : bool)
| JNum (z : Z)
| JStr (s : bytes)
| JArr (l : list jv)
| JObj (kvs : list (bytes * jv)).

Inductive frag :=
| Child (k : bytes)      (* .k  ['k'] *)
| Nth (i : Z)            (* [i], negative from the end *)
| Wild                   (* [*]  .* *)
| Desc.                  (* .. *)

(* a location: the keys and indices from the root; SHop enters the JSON document stored in a
   string (json() hop) *)
Inductive step := SKey (k : bytes) | SIdx (n : nat) | SHop.
Definition loc := list step.

Definition step_eqb (a b : step) : bool :=
  match a, b with
  | SKey x, SKey y => bytes_eqb x y
  | SIdx x, SIdx y => Nat.eqb x y
  | SHop, SHop => true
  | _, _ => false
  end.

(* [REDACTED] *)
Definition REDACTED : bytes := bs [91;82;69;68;65;67;84;69;68;93]%N.
Definition MARK : jv := JStr REDACTED.

Fixpoint lookup (k : bytes) (kvs : list (bytes * jv)) : option jv :=
  match kvs with
  | [] => None
  | (k', v) :: r => if bytes_eqb k k' then Some v else lookup k r
  end.

(* Go: i < 0 -> i += len; valid iff 0 <= i < len *)
Definition norm_index (i : Z) (len : nat) : option nat :=
  let i' := if (i <? 0)%Z then (i + Z.of_nat len)%Z else i in
  if ((0 <=? i') && (i' <? Z.of_nat len))%Z then Some (Z.to_nat i') else None.

(* one ".json()"-separated piece of an argument of redact: its JSON path and, if the piece
   contains ".xml()", the text that follows it *)
Record seg := { sjp : list frag; sxml : option bytes }.
