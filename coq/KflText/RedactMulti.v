(* C15, several plain JSON paths in sequence (redact with several arguments that have no hops).
   setMatches with the marker is [mark] of the matched locations (RedactProofs.setm_mark), and a
   further setMatches on a marked record is again a [mark] of the ORIGINAL record with more
   locations (fold_set_mark).  The locations that a later path matches in the already marked
   record are locations it denotes in the original one, and every location it denotes in the
   original one is either still matched or lies below an earlier mark.  Hence the result equals
   [mark] of all the locations denoted in the original record: the four clauses follow from the
   lemmas about [mark], and the result does not depend on the order of the paths. *)
Require Import V.Base.Prelude V.KflText.Macro V.KflText.MacroProofs V.KflText.RJv V.KflText.Redact V.KflText.RedactSpec
  V.KflText.RedactProofs.
From Coq Require Import Permutation.
Local Open Scope bool_scope.

(* ------------------------------------------------------------------ shape of a marked value *)
Lemma mark_arr_length D l : forall i, length (mark_arr D i l) = length l.
Proof. induction l as [|c r IH]; intro i; [reflexivity|]. cbn [mark_arr length]. rewrite IH. reflexivity. Qed.

Lemma mark_inv_arr D v ys : mark D v = JArr ys -> has_nil D = false /\ exists xs, v = JArr xs /\ ys = mark_arr D 0 xs.
Proof.
  rewrite mark_unfold. destruct (has_nil D); [discriminate|]. intro H. split; [reflexivity|].
  destruct v; try discriminate. injection H as <-. eauto.
Qed.

Lemma mark_inv_obj D v kvs' : mark D v = JObj kvs' -> has_nil D = false /\ exists kvs, v = JObj kvs /\ kvs' = mark_obj D kvs.
Proof.
  rewrite mark_unfold. destruct (has_nil D); [discriminate|]. intro H. split; [reflexivity|].
  destruct v; try discriminate. injection H as <-. eauto.
Qed.

Lemma in_mark_obj D k c' kvs : In (k, c') (mark_obj D kvs) -> exists c, In (k, c) kvs /\ c' = mark (under (SKey k) D) c.
Proof.
  unfold mark_obj. rewrite in_map_iff. intros ([k0 c] & E & Hin). cbn [fst snd] in E. injection E as -> <-. eauto.
Qed.

Lemma in_mark_obj_fwd D k c kvs : In (k, c) kvs -> In (k, mark (under (SKey k) D) c) (mark_obj D kvs).
Proof. intro H. unfold mark_obj. apply in_map_iff. exists (k, c). split; [reflexivity | exact H]. Qed.

(* a path denotes at most the root of a leaf, and then it denotes the root of anything *)
Lemma denotes_leaf fs x L : Denotes fs x L -> is_leaf x -> L = [] /\ forall v, Denotes fs v [].
Proof.
  induction 1 as [v|k rest kvs c L Lk _ IH|i rest xs n c L Ni Nn _ IH|rest xs n c L Nn _ IH
                  |rest kvs k c L Hin _ IH|rest v L _ IH|rest xs n c L Nn HD IH|rest kvs k c L Hin HD IH];
    intro Hl; try contradiction.
  - split; [reflexivity | intro; constructor].
  - destruct (IH Hl) as [-> Hv]. split; [reflexivity | intro v0; apply D_desc_here, Hv].
Qed.

Lemma is_prefix_cons s A B : is_prefix A B -> is_prefix (s :: A) (s :: B).
Proof. intros [r ->]. exists r. reflexivity. Qed.

Lemma is_prefix_nil B : is_prefix [] B.
Proof. exists B. reflexivity. Qed.

(* ------------------------------------------------------------------ Denotes in the marked record and in the original one *)
(* (b) marking creates no container: what a path denotes in the marked record it denotes in the record *)
Lemma denotes_mark_back fs v1 L : Denotes fs v1 L -> forall D v, v1 = mark D v -> Denotes fs v L.
Proof.
  induction 1 as [v1|k rest kvs c L Lk _ IH|i rest xs n c L Ni Nn _ IH|rest xs n c L Nn _ IH
                  |rest kvs k c L Hin _ IH|rest v1 L _ IH|rest xs n c L Nn HD IH|rest kvs k c L Hin HD IH];
    intros D v E.
  - constructor.
  - symmetry in E. apply mark_inv_obj in E. destruct E as (_ & kvs0 & -> & ->).
    rewrite lookup_mark_obj in Lk. destruct (lookup k kvs0) as [c0|] eqn:L0; [|discriminate].
    cbn [option_map] in Lk. injection Lk as <-. econstructor; [exact L0 | eapply IH; reflexivity].
  - symmetry in E. apply mark_inv_arr in E. destruct E as (_ & xs0 & -> & ->).
    rewrite mark_arr_length in Ni. rewrite nth_mark_arr in Nn. destruct (nth_error xs0 n) as [c0|] eqn:N0; [|discriminate].
    cbn [option_map] in Nn. injection Nn as <-. econstructor; [exact Ni | exact N0 | eapply IH; reflexivity].
  - symmetry in E. apply mark_inv_arr in E. destruct E as (_ & xs0 & -> & ->).
    rewrite nth_mark_arr in Nn. destruct (nth_error xs0 n) as [c0|] eqn:N0; [|discriminate].
    cbn [option_map] in Nn. injection Nn as <-. econstructor; [exact N0 | eapply IH; reflexivity].
  - symmetry in E. apply mark_inv_obj in E. destruct E as (_ & kvs0 & -> & ->).
    apply in_mark_obj in Hin. destruct Hin as (c0 & Hin0 & ->). econstructor; [exact Hin0 | eapply IH; reflexivity].
  - apply D_desc_here. eapply IH. exact E.
  - symmetry in E. apply mark_inv_arr in E. destruct E as (_ & xs0 & -> & ->).
    rewrite nth_mark_arr in Nn. destruct (nth_error xs0 n) as [c0|] eqn:N0; [|discriminate].
    cbn [option_map] in Nn. injection Nn as <-. eapply D_desc_arr; [exact N0 | eapply IH; reflexivity].
  - symmetry in E. apply mark_inv_obj in E. destruct E as (_ & kvs0 & -> & ->).
    apply in_mark_obj in Hin. destruct Hin as (c0 & Hin0 & ->). eapply D_desc_obj; [exact Hin0 | eapply IH; reflexivity].
Qed.

(* (c) what a path denotes in the record it still denotes in the marked record, unless the location
   is at or below a marked one *)
Lemma denotes_mark_fwd fs v L : Denotes fs v L ->
  forall D, Denotes fs (mark D v) L \/ exists L0, In L0 D /\ is_prefix L0 L.
Proof.
  induction 1 as [v|k rest kvs c L Lk _ IH|i rest xs n c L Ni Nn _ IH|rest xs n c L Nn _ IH
                  |rest kvs k c L Hin _ IH|rest v L _ IH|rest xs n c L Nn HD IH|rest kvs k c L Hin HD IH];
    intro D.
  - left. constructor.
  - destruct (has_nil D) eqn:Hn; [right; exists []; split; [apply has_nil_spec, Hn | apply is_prefix_nil]|].
    destruct (IH (under (SKey k) D)) as [H|(L0 & H0 & Hp)].
    + left. rewrite mark_unfold, Hn. econstructor; [|exact H]. rewrite lookup_mark_obj, Lk. reflexivity.
    + right. exists (SKey k :: L0). split; [apply in_under, H0 | apply is_prefix_cons, Hp].
  - destruct (has_nil D) eqn:Hn; [right; exists []; split; [apply has_nil_spec, Hn | apply is_prefix_nil]|].
    destruct (IH (under (SIdx n) D)) as [H|(L0 & H0 & Hp)].
    + left. rewrite mark_unfold, Hn. econstructor; [rewrite mark_arr_length; exact Ni| |exact H].
      rewrite nth_mark_arr, Nn. reflexivity.
    + right. exists (SIdx n :: L0). split; [apply in_under, H0 | apply is_prefix_cons, Hp].
  - destruct (has_nil D) eqn:Hn; [right; exists []; split; [apply has_nil_spec, Hn | apply is_prefix_nil]|].
    destruct (IH (under (SIdx n) D)) as [H|(L0 & H0 & Hp)].
    + left. rewrite mark_unfold, Hn. econstructor; [|exact H]. rewrite nth_mark_arr, Nn. reflexivity.
    + right. exists (SIdx n :: L0). split; [apply in_under, H0 | apply is_prefix_cons, Hp].
  - destruct (has_nil D) eqn:Hn; [right; exists []; split; [apply has_nil_spec, Hn | apply is_prefix_nil]|].
    destruct (IH (under (SKey k) D)) as [H|(L0 & H0 & Hp)].
    + left. rewrite mark_unfold, Hn. econstructor; [|exact H]. apply in_mark_obj_fwd, Hin.
    + right. exists (SKey k :: L0). split; [apply in_under, H0 | apply is_prefix_cons, Hp].
  - destruct (IH D) as [H|H]; [left; apply D_desc_here, H | right; exact H].
  - destruct (has_nil D) eqn:Hn; [right; exists []; split; [apply has_nil_spec, Hn | apply is_prefix_nil]|].
    destruct (IH (under (SIdx n) D)) as [H|(L0 & H0 & Hp)].
    + left. rewrite mark_unfold, Hn. eapply D_desc_arr; [|exact H]. rewrite nth_mark_arr, Nn. reflexivity.
    + right. exists (SIdx n :: L0). split; [apply in_under, H0 | apply is_prefix_cons, Hp].
  - destruct (has_nil D) eqn:Hn; [right; exists []; split; [apply has_nil_spec, Hn | apply is_prefix_nil]|].
    destruct (IH (under (SKey k) D)) as [H|(L0 & H0 & Hp)].
    + left. rewrite mark_unfold, Hn. eapply D_desc_obj; [|exact H]. apply in_mark_obj_fwd, Hin.
    + right. exists (SKey k :: L0). split; [apply in_under, H0 | apply is_prefix_cons, Hp].
Qed.

(* ------------------------------------------------------------------ mark depends on the covered locations only *)
Definition covered (D : list loc) (L : loc) : Prop := exists L0, In L0 D /\ is_prefix L0 L.

Lemma covered_nil D : covered D [] <-> has_nil D = true.
Proof.
  rewrite has_nil_spec. split.
  - intros (L0 & Hin & r & E). symmetry in E. apply app_eq_nil in E. destruct E as [-> _]. exact Hin.
  - intro H. exists []. split; [exact H | apply is_prefix_nil].
Qed.

Lemma covered_under s D L : has_nil D = false -> (covered (under s D) L <-> covered D (s :: L)).
Proof.
  intro Hn. split.
  - intros (L0 & Hin & Hp). exists (s :: L0). split; [apply in_under, Hin | apply is_prefix_cons, Hp].
  - intros (L0 & Hin & r & E). destruct L0 as [|s0 L0].
    + apply has_nil_spec in Hin. congruence.
    + cbn [app] in E. injection E as <- ->. exists L0. split; [apply in_under, Hin | exists r; reflexivity].
Qed.

Lemma mark_ext v : forall D D', (forall L, covered D L <-> covered D' L) -> mark D v = mark D' v.
Proof.
  induction v as [| | | |l IH|kvs IH] using jv_ind'; intros D D' E; rewrite (mark_unfold D), (mark_unfold D');
    assert (En : has_nil D = has_nil D')
      by (destruct (has_nil D) eqn:H1, (has_nil D') eqn:H2; try reflexivity;
          [apply covered_nil, E, covered_nil in H1 | apply covered_nil, E, covered_nil in H2]; congruence);
    rewrite <- En; try reflexivity.
  - destruct (has_nil D) eqn:Hn; [reflexivity|]. f_equal. generalize 0%nat.
    induction IH as [|c r Hc _ IHr]; intro i; [reflexivity|]. cbn [mark_arr]. f_equal; [|apply IHr].
    apply Hc. intro L. rewrite !covered_under by congruence. apply E.
  - destruct (has_nil D) eqn:Hn; [reflexivity|]. f_equal. unfold mark_obj.
    induction IH as [|kv r Hc _ IHr]; [reflexivity|]. cbn [map]. f_equal; [|apply IHr].
    f_equal. apply Hc. intro L. rewrite !covered_under by congruence. apply E.
Qed.

(* ------------------------------------------------------------------ several paths, one after the other *)
Definition setm_all (fss : list (list frag)) (v : jv) : jv :=
  fold_left (fun acc fs => setm MARK fs acc) fss v.

(* the locations written so far, as locations of the original record *)
Definition step_locs (v : jv) (D : list loc) (fs : list frag) : list loc :=
  rev (map fst (jmatches fs (mark D v))) ++ D.
Definition all_locs (v : jv) (fss : list (list frag)) (D : list loc) : list loc :=
  fold_left (step_locs v) fss D.

Lemma setm_on_mark fs D v : setm MARK fs (mark D v) = mark (step_locs v D fs) v.
Proof. unfold setm, step_locs. apply fold_set_mark. Qed.

Lemma setm_all_mark fss : forall D v, setm_all fss (mark D v) = mark (all_locs v fss D) v.
Proof.
  induction fss as [|fs fss IH]; intros D v; [reflexivity|].
  unfold setm_all, all_locs. cbn [fold_left]. rewrite setm_on_mark. apply IH.
Qed.

(* the locations all paths denote in the original record, as a list *)
Definition denoted_locs (v : jv) (fss : list (list frag)) : list loc :=
  flat_map (fun fs => rev (map fst (jmatches fs v))) fss.

Lemma in_denoted_locs v fss L : In L (denoted_locs v fss) <-> exists fs, In fs fss /\ Denotes fs v L.
Proof.
  unfold denoted_locs. rewrite in_flat_map. split; intros (fs & Hin & H); exists fs; (split; [exact Hin|]); apply in_matches_iff, H.
Qed.

Lemma all_locs_incl v fss : forall D L, In L D -> In L (all_locs v fss D).
Proof.
  induction fss as [|fs fss IH]; intros D L H; [exact H|]. unfold all_locs. cbn [fold_left]. apply IH.
  unfold step_locs. apply in_or_app. right. exact H.
Qed.

(* every written location is denoted in the original record *)
Lemma all_locs_sound v fss : forall D L, In L (all_locs v fss D) -> In L D \/ exists fs, In fs fss /\ Denotes fs v L.
Proof.
  induction fss as [|fs fss IH]; intros D L H; [left; exact H|]. unfold all_locs in H. cbn [fold_left] in H.
  destruct (IH _ _ H) as [H1|(fs' & Hin & HD)].
  - unfold step_locs in H1. apply in_app_or in H1. destruct H1 as [H1|H1]; [|left; exact H1].
    right. exists fs. split; [left; reflexivity|]. apply in_matches_iff in H1. eapply denotes_mark_back; [exact H1 | reflexivity].
  - right. exists fs'. split; [right; exact Hin | exact HD].
Qed.

(* every denoted location is at or below a written one *)
Lemma all_locs_complete v fss : forall D fs L, In fs fss -> Denotes fs v L -> covered (all_locs v fss D) L.
Proof.
  induction fss as [|fs0 fss IH]; intros D fs L Hin HD; [contradiction|]. unfold all_locs. cbn [fold_left].
  destruct Hin as [->|Hin]; [|eapply IH; eassumption].
  destruct (denotes_mark_fwd fs v L HD D) as [H|(L0 & H0 & Hp)].
  - exists L. split; [|exists []; rewrite app_nil_r; reflexivity]. apply all_locs_incl.
    unfold step_locs. apply in_or_app. left. apply in_matches_iff, H.
  - exists L0. split; [|exact Hp]. apply all_locs_incl. unfold step_locs. apply in_or_app. right. exact H0.
Qed.

Lemma is_prefix_trans A B C : is_prefix A B -> is_prefix B C -> is_prefix A C.
Proof. intros [r ->] [r' ->]. exists (r ++ r'). rewrite app_assoc. reflexivity. Qed.

(* the result of the sequence = marking everything the paths denote in the original record *)
Theorem setm_all_value fss v : setm_all fss v = mark (denoted_locs v fss) v.
Proof.
  rewrite <- (mark_nil v) at 1. rewrite setm_all_mark. apply mark_ext. intro L. split.
  - intros (L0 & Hin & Hp). destruct (all_locs_sound v fss [] L0 Hin) as [[]|H].
    exists L0. split; [apply in_denoted_locs, H | exact Hp].
  - intros (L0 & Hin & Hp). apply in_denoted_locs in Hin. destruct Hin as (fs & Hin & HD).
    destruct (all_locs_complete v fss [] fs L0 Hin HD) as (L1 & H1 & Hp1).
    exists L1. split; [exact H1 | eapply is_prefix_trans; eassumption].
Qed.

(* hence the order of the paths does not matter, overlapping or not *)
Theorem setm_all_perm fss fss' v : Permutation fss fss' -> setm_all fss v = setm_all fss' v.
Proof.
  intro HP. rewrite !setm_all_value. apply mark_ext. intro L.
  split; intros (L0 & Hin & Hp); exists L0; (split; [|exact Hp]); apply in_denoted_locs in Hin; apply in_denoted_locs;
    destruct Hin as (fs & Hin & HD); exists fs; (split; [|exact HD]).
  - eapply Permutation_in; eassumption.
  - eapply Permutation_in; [apply Permutation_sym|]; eassumption.
Qed.

Section SeveralPaths.
  Variable parse : bytes -> option jv.
  Variable b64d : bytes -> option bytes.
  Hypothesis Hmark : decode parse b64d REDACTED = None.

  Definition paths_denote (fss : list (list frag)) (v : jv) : loc -> Prop :=
    fun L => exists fs, In fs fss /\ Denotes fs v L.

  Theorem several_paths_clauses fss v : wf v ->
    marker_at_denoted parse b64d (paths_denote fss v) (setm_all fss v)
    /\ frame parse b64d (paths_denote fss v) v (setm_all fss v)
    /\ leaves_from_original parse b64d v (setm_all fss v)
    /\ no_location_added parse b64d v (setm_all fss v).
  Proof.
    intro Hw. rewrite setm_all_value. set (D := denoted_locs v fss). repeat split.
    - intros L HL. destruct HL as (fs & Hin & HD).
      destruct (denotes_sub parse b64d fs v L Hw HD) as [S F].
      assert (HinD : In L D) by (apply in_denoted_locs; exists fs; auto).
      destruct (mark_marker parse b64d L v D F HinD S) as (L0 & Lr & E & H0 & HM).
      exists L0, Lr. repeat split; [exact E | apply in_denoted_locs, H0 | exact HM].
    - intros L x S Hd. apply mark_frame; [exact S|]. intros d Hin. apply Hd, in_denoted_locs, Hin.
    - intros L x S [Hl _]. eapply mark_leaves; eassumption.
    - intros L S. eapply mark_no_new; eassumption.
  Qed.

  (* the clauses for any order of the same paths *)
  Corollary several_paths_any_order fss fss' v : wf v -> Permutation fss fss' ->
    marker_at_denoted parse b64d (paths_denote fss v) (setm_all fss' v)
    /\ frame parse b64d (paths_denote fss v) v (setm_all fss' v)
    /\ leaves_from_original parse b64d v (setm_all fss' v)
    /\ no_location_added parse b64d v (setm_all fss' v).
  Proof.
    intros Hw HP. rewrite <- (setm_all_perm fss fss' v HP). apply several_paths_clauses, Hw.
  Qed.
End SeveralPaths.
