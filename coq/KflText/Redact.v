(* Model of kfl's redact helper (pkg/languages/kfl/eval.go: redact, redactRecursively,
   setMatches) after the repairs 4eb9205, 2ea9c6a, a83f49f.

   A record is a JSON value; an argument of redact is the text  p0.json()p1.json()...pn  with an
   optional  .xml()xp  inside a piece.  jp.ParseString (ojg) is a library: the model takes the
   pieces already parsed into the fragments that redact can build (child, index, wildcard,
   descent).  jp.Expr.Get is modelled by [jmatches], which returns every match with its location:
   Go holds pointers into the live tree (the parents that setMatches mutates), the model holds
   locations and writes through them in the same order; a write below a subtree that an earlier
   write replaced is lost in both.  The nested-document libraries are oracles (Section variables):
     parse / render        oj.ParseString / oj.JSON
     b64d / b64e           base64.StdEncoding Decode / Encode
     xml_redact            redactXml as a whole (mxj NewMapXml, ValuesForPath, SetValueForPath, Xml)
   No proofs in this file. *)
Require Import V.Base.Prelude V.KflText.Macro V.KflText.RJv.
Local Open Scope bool_scope.

(* ---- jp.Expr.Get for these fragments: (location, value) of every match, document order ---- *)
Definition shift (s : step) (m : loc * jv) : loc * jv := (s :: fst m, snd m).

Fixpoint indexed (i : nat) (l : list jv) : list (step * jv) :=
  match l with
  | [] => []
  | c :: r => (SIdx i, c) :: indexed (S i) r
  end.

(* the members of a container with the step that leads to them *)
Definition members (v : jv) : list (step * jv) :=
  match v with
  | JArr l => indexed 0 l
  | JObj kvs => map (fun kv => (SKey (fst kv), snd kv)) kvs
  | _ => []
  end.

(* the node itself and all its descendants *)
Fixpoint nodes (v : jv) : list (loc * jv) :=
  ([], v) ::
  match v with
  | JArr l => (fix go (i : nat) (l : list jv) : list (loc * jv) :=
                 match l with
                 | [] => []
                 | c :: r => map (shift (SIdx i)) (nodes c) ++ go (S i) r
                 end) 0%nat l
  | JObj kvs => flat_map (fun kv => map (shift (SKey (fst kv))) (nodes (snd kv))) kvs
  | _ => []
  end.

Definition step_matches (f : frag) (v : jv) : list (loc * jv) :=
  match f with
  | Child k => match v with
               | JObj kvs => match lookup k kvs with Some c => [([SKey k], c)] | None => [] end
               | _ => []
               end
  | Nth i => match v with
             | JArr l => match norm_index i (length l) with
                         | Some n => match nth_error l n with Some c => [([SIdx n], c)] | None => [] end
                         | None => []
                         end
             | _ => []
             end
  | Wild => map (fun m => ([fst m], snd m)) (members v)
  | Desc => nodes v
  end.

Fixpoint jmatches (fs : list frag) (v : jv) : list (loc * jv) :=
  match fs with
  | [] => [([], v)]
  | f :: rest => flat_map (fun m => map (fun m' => (fst m ++ fst m', snd m')) (jmatches rest (snd m))) (step_matches f v)
  end.

(* ---- writing through a location (only if it exists) ---- *)
Fixpoint set_nth (n : nat) (g : jv -> jv) (l : list jv) : list jv :=
  match l, n with
  | [], _ => []
  | x :: r, O => g x :: r
  | x :: r, S n' => x :: set_nth n' g r
  end.

(* a Go map has one entry per key *)
Definition set_key (k : bytes) (g : jv -> jv) (kvs : list (bytes * jv)) : list (bytes * jv) :=
  map (fun kv => if bytes_eqb k (fst kv) then (fst kv, g (snd kv)) else kv) kvs.

Fixpoint set_at (x : jv) (l : loc) (v : jv) : jv :=
  match l with
  | [] => x
  | s :: l' =>
      match s, v with
      | SKey k, JObj kvs => JObj (set_key k (set_at x l') kvs)
      | SIdx n, JArr xs => JArr (set_nth n (set_at x l') xs)
      | _, _ => v
      end
  end.

(* The paths the model covers: not empty (jp.Expr.Get of an empty expression returns nothing) and
   not ending in a descent (setMatches hands those to jp.Expr.Set, which is not modelled).
   redact_rec reports an error for any other path, so that the limitation is explicit. *)
Fixpoint path_ok (fs : list frag) : bool :=
  match fs with
  | [] => false
  | [f] => match f with Desc => false | _ => true end
  | _ :: r => path_ok r
  end.

(* setMatches(obj, jsonPath, value): the matches are looked up first, then written one by one *)
Definition setm (x : jv) (fs : list frag) (v : jv) : jv :=
  fold_left (fun acc m => set_at x (fst m) acc) (jmatches fs v) v.

Section Oracles.
  Variable parse : bytes -> option jv.
  Variable render : jv -> bytes.
  Variable b64d : bytes -> option bytes.
  Variable b64e : bytes -> bytes.
  Variable xml_redact : bytes -> bytes -> option bytes.

  (* redactRecursively(obj, paths): None = an error was returned (the caller keeps the record) *)
  Fixpoint redact_rec (obj : jv) (paths : list seg) : option jv :=
    match paths with
    | [] => Some obj
    | p :: rest =>
        if negb (path_ok (sjp p)) then None else
        match jmatches (sjp p) obj with
        | [] => None                                       (* "No match" *)
        | (_, r0) :: _ =>
            match sxml p with
            | Some xp =>
                match r0 with
                | JStr s => match xml_redact s xp with
                            | Some s' => Some (setm (JStr s') (sjp p) obj)
                            | None => None
                            end
                | _ => None                                (* "Not a string" *)
                end
            | None =>
                match rest with
                | [] => Some (setm MARK (sjp p) obj)
                | _ :: _ =>
                    match r0 with
                    | JStr s =>
                        let '(text, wrapped) := match b64d s with Some t => (t, true) | None => (s, false) end in
                        match parse text with
                        | Some inner =>
                            match redact_rec inner rest with
                            | Some inner' =>
                                let t' := render inner' in
                                Some (setm (JStr (if wrapped then b64e t' else t')) (sjp p) obj)
                            | None => None
                            end
                        | None => None
                        end
                    | _ => None                            (* "Not a string" *)
                    end
                end
            end
        end
    end.

  (* redact(args...): every argument in turn; an argument that fails is skipped *)
  Definition redact_model (obj : jv) (args : list (list seg)) : jv :=
    fold_left (fun o a => match redact_rec o a with Some o' => o' | None => o end) args obj.
End Oracles.
