(* Model of kfl's redact helper (pkg/languages/kfl/eval.go: redact, redactRecursively,
   setMatches) after the repairs 4eb9205, 2ea9c6a, a83f49f.

   A record is a JSON value; an argument of redact is the text  p0.json()p1.json()...pn  with an
   optional  .xml()xp  inside a piece.  jp.ParseString (ojg) is a library: the model takes the
   pieces already parsed into the fragments that redact can build (child, index, wildcard,
   descent).  The nested-document libraries are oracles (Section variables):
     parse / render        oj.ParseString / oj.JSON
     b64d / b64e           base64.StdEncoding Decode / Encode
     xml_redact            redactXml as a whole (mxj NewMapXml, ValuesForPath, SetValueForPath, Xml)
   No proofs in this file. *)
Require Import V.Base.Prelude V.KflText.Macro.
Local Open Scope bool_scope.

Inductive jv :=
| JNull
| JBool (b : bool)
| JNum (z : Z)
| JStr (s : bytes)
| JArr (l : list jv)
| JObj (kvs : list (bytes * jv)).

Inductive frag :=
| Child (k : bytes)      (* .k  ['k'] *)
| Nth (i : Z)            (* [i], negative from the end *)
| Wild                   (* [*]  .* *)
| Desc.                  (* .. *)

(* [REDACTED] *)
Definition REDACTED : bytes := bs [91;82;69;68;65;67;84;69;68;93]%N.

(* ---- jp.Expr.Get for these fragments (values, document order) ---- *)
Definition children (v : jv) : list jv :=
  match v with
  | JArr l => l
  | JObj kvs => map snd kvs
  | _ => []
  end.

Fixpoint lookup (k : bytes) (kvs : list (bytes * jv)) : option jv :=
  match kvs with
  | [] => None
  | (k', v) :: r => if bytes_eqb k k' then Some v else lookup k r
  end.

Definition norm_index (i : Z) (len : nat) : option nat :=
  let i' := if (i <? 0)%Z then (i + Z.of_nat len)%Z else i in
  if ((0 <=? i') && (i' <? Z.of_nat len))%Z then Some (Z.to_nat i') else None.

(* the node itself and all its descendants *)
Fixpoint descendants (v : jv) : list jv :=
  v :: match v with
       | JArr l => flat_map descendants l
       | JObj kvs => flat_map (fun kv => descendants (snd kv)) kvs
       | _ => []
       end.

Definition step_get (f : frag) (v : jv) : list jv :=
  match f with
  | Child k => match v with JObj kvs => match lookup k kvs with Some c => [c] | None => [] end | _ => [] end
  | Nth i => match v with
             | JArr l => match norm_index i (length l) with Some n => match nth_error l n with Some c => [c] | None => [] end | None => [] end
             | _ => []
             end
  | Wild => children v
  | Desc => descendants v
  end.

Fixpoint jget (fs : list frag) (v : jv) : list jv :=
  match fs with
  | [] => [v]
  | f :: rest => flat_map (jget rest) (step_get f v)
  end.

(* ---- setMatches: the value goes to every existing location that the path denotes ---- *)
Definition map_key (k : bytes) (g : jv -> jv) (kvs : list (bytes * jv)) : list (bytes * jv) :=
  map (fun kv => if bytes_eqb k (fst kv) then (fst kv, g (snd kv)) else kv) kvs.

Fixpoint map_nth (n : nat) (g : jv -> jv) (l : list jv) : list jv :=
  match l, n with
  | [], _ => []
  | x :: r, O => g x :: r
  | x :: r, S n' => x :: map_nth n' g r
  end.

Definition map_children (g : jv -> jv) (v : jv) : jv :=
  match v with
  | JArr l => JArr (map g l)
  | JObj kvs => JObj (map (fun kv => (fst kv, g (snd kv))) kvs)
  | _ => v
  end.

Fixpoint setm (x : jv) (fs : list frag) : jv -> jv :=
  match fs with
  | [] => fun _ => x
  | f :: rest =>
      let k := setm x rest in
      match f with
      | Child key => fun v => match v with JObj kvs => JObj (map_key key k kvs) | _ => v end
      | Nth i => fun v => match v with
                          | JArr l => match norm_index i (length l) with Some n => JArr (map_nth n k l) | None => v end
                          | _ => v
                          end
      | Wild => map_children k
      | Desc => fix go (v : jv) : jv :=
                  k match v with
                    | JArr l => JArr (map go l)
                    | JObj kvs => JObj (map (fun kv => (fst kv, go (snd kv))) kvs)
                    | _ => v
                    end
      end
  end.

(* one ".json()"-separated piece of an argument: its JSON path and, if the piece contains
   ".xml()", the text that follows it *)
Record seg := { sjp : list frag; sxml : option bytes }.

Section Oracles.
  Variable parse : bytes -> option jv.
  Variable render : jv -> bytes.
  Variable b64d : bytes -> option bytes.
  Variable b64e : bytes -> bytes.
  Variable xml_redact : bytes -> bytes -> option bytes.

  (* redactRecursively(obj, paths): None = an error was returned (the caller keeps the record) *)
  Fixpoint redact_rec (obj : jv) (paths : list seg) : option jv :=
    match paths with
    | [] => Some obj
    | p :: rest =>
        match jget (sjp p) obj with
        | [] => None                                       (* "No match" *)
        | r0 :: _ =>
            match sxml p with
            | Some xp =>
                match r0 with
                | JStr s => match xml_redact s xp with
                            | Some s' => Some (setm (JStr s') (sjp p) obj)
                            | None => None
                            end
                | _ => None                                (* "Not a string" *)
                end
            | None =>
                match rest with
                | [] => Some (setm (JStr REDACTED) (sjp p) obj)
                | _ :: _ =>
                    match r0 with
                    | JStr s =>
                        let '(text, wrapped) := match b64d s with Some t => (t, true) | None => (s, false) end in
                        match parse text with
                        | Some inner =>
                            match redact_rec inner rest with
                            | Some inner' =>
                                let t' := render inner' in
                                Some (setm (JStr (if wrapped then b64e t' else t')) (sjp p) obj)
                            | None => None
                            end
                        | None => None
                        end
                    | _ => None                            (* "Not a string" *)
                    end
                end
            end
        end
    end.

  (* redact(args...): every argument in turn; an argument that fails is skipped *)
  Definition redact_model (obj : jv) (args : list (list seg)) : jv :=
    fold_left (fun o a => match a with
                          | [] => o
                          | _ => match redact_rec o a with Some o' => o' | None => o end
                          end) args obj.
End Oracles.
