(* Concrete instances of the nested-document oracles of Redact.v, used only by the
   correspondence check (the theorems keep them abstract): a parser and a renderer for compact
   JSON (no insignificant whitespace; strings with the escapes backslash + quote, backslash, n, t, slash; integers) and
   base64 (StdEncoding, padded).  They are what oj.ParseString / oj.JSON / encoding/base64 do on
   the documents the generator builds; the comparison with the implementation is made on the
   canonical re-rendering of every nested document (sorted keys), see tools/fam/kfltext.py. *)
Require Import V.Base.Prelude V.KflText.Macro V.KflText.RJv V.KflText.Redact.
Local Open Scope bool_scope.
Local Open Scope N_scope.

Definition B (n : N) : byte := b_of_N n.
Definition is (b : byte) (n : N) : bool := b2n b =? n.

(* ---------------------------------------------------------------- render *)
Definition esc (b : byte) : bytes :=
  if is b 34 then [B 92; B 34] else if is b 92 then [B 92; B 92] else if is b 10 then [B 92; B 110]
  else if is b 9 then [B 92; B 116] else [b].

Definition render_str (s : bytes) : bytes := B 34 :: flat_map esc s ++ [B 34].

Fixpoint digits (fuel : nat) (n : N) (acc : bytes) : bytes :=
  match fuel with
  | O => acc
  | S f => let acc' := B (48 + n mod 10) :: acc in if n / 10 =? 0 then acc' else digits f (n / 10) acc'
  end.

Definition render_z (z : Z) : bytes :=
  match z with
  | Z0 => [B 48]
  | Zpos p => digits 40 (Npos p) []
  | Zneg p => B 45 :: digits 40 (Npos p) []
  end.

Fixpoint join (sep : byte) (l : list bytes) : bytes :=
  match l with
  | [] => []
  | [x] => x
  | x :: r => x ++ sep :: join sep r
  end.

Fixpoint render (v : jv) : bytes :=
  match v with
  | JNull => bs [110;117;108;108]
  | JBool true => bs [116;114;117;101]
  | JBool false => bs [102;97;108;115;101]
  | JNum z => render_z z
  | JStr s => render_str s
  | JArr l => B 91 :: join (B 44) (map render l) ++ [B 93]
  | JObj kvs => B 123 :: join (B 44) (map (fun kv => render_str (fst kv) ++ B 58 :: render (snd kv)) kvs) ++ [B 125]
  end.

(* ---------------------------------------------------------------- parse *)
Fixpoint pstring (fuel : nat) (q : bytes) (acc : bytes) : option (bytes * bytes) :=
  match fuel with
  | O => None
  | S f =>
      match q with
      | [] => None
      | b :: r =>
          if is b 34 then Some (rev acc, r)
          else if is b 92 then
            match r with
            | c :: r' =>
                if is c 34 then pstring f r' (B 34 :: acc)
                else if is c 92 then pstring f r' (B 92 :: acc)
                else if is c 110 then pstring f r' (B 10 :: acc)
                else if is c 116 then pstring f r' (B 9 :: acc)
                else if is c 47 then pstring f r' (B 47 :: acc)
                else None
            | [] => None
            end
          else pstring f r (b :: acc)
      end
  end.

Definition is_digit (b : byte) : bool := (48 <=? b2n b) && (b2n b <=? 57).

Fixpoint pdigits (q : bytes) (acc : N) (seen : bool) : option (N * bytes) :=
  match q with
  | b :: r => if is_digit b then pdigits r (acc * 10 + (b2n b - 48)) true
              else if seen then Some (acc, q) else None
  | [] => if seen then Some (acc, []) else None
  end.

Definition starts (p q : bytes) : option bytes := strip_prefix p q.

Fixpoint pval (fuel : nat) (q : bytes) {struct fuel} : option (jv * bytes) :=
  match fuel with
  | O => None
  | S f =>
      match q with
      | [] => None
      | b :: r =>
          if is b 34 then
            match pstring (S (length r)) r [] with Some (s, r') => Some (JStr s, r') | None => None end
          else if is b 91 then
            match r with
            | c :: r' =>
                if is c 93 then Some (JArr [], r')
                else (fix elems (g : nat) (q : bytes) (acc : list jv) {struct g} : option (jv * bytes) :=
                        match g with
                        | O => None
                        | S g' =>
                            match pval f q with
                            | Some (v, d :: r2) =>
                                if is d 44 then elems g' r2 (v :: acc)
                                else if is d 93 then Some (JArr (rev (v :: acc)), r2) else None
                            | _ => None
                            end
                        end) f r []
            | [] => None
            end
          else if is b 123 then
            match r with
            | c :: r' =>
                if is c 125 then Some (JObj [], r')
                else (fix members (g : nat) (q : bytes) (acc : list (bytes * jv)) {struct g} : option (jv * bytes) :=
                        match g with
                        | O => None
                        | S g' =>
                            match q with
                            | k0 :: qk =>
                                if is k0 34 then
                                  match pstring (S (length qk)) qk [] with
                                  | Some (k, col :: qv) =>
                                      if is col 58 then
                                        match pval f qv with
                                        | Some (v, d :: r2) =>
                                            if is d 44 then members g' r2 ((k, v) :: acc)
                                            else if is d 125 then Some (JObj (rev ((k, v) :: acc)), r2) else None
                                        | _ => None
                                        end
                                      else None
                                  | _ => None
                                  end
                                else None
                            | [] => None
                            end
                        end) f r []
            | [] => None
            end
          else if is b 45 then
            match pdigits r 0 false with Some (n, r') => Some (JNum (- Z.of_N n), r') | None => None end
          else if is_digit b then
            match pdigits q 0 false with Some (n, r') => Some (JNum (Z.of_N n), r') | None => None end
          else match starts (bs [110;117;108;108]) q with Some r' => Some (JNull, r') | None =>
               match starts (bs [116;114;117;101]) q with Some r' => Some (JBool true, r') | None =>
               match starts (bs [102;97;108;115;101]) q with Some r' => Some (JBool false, r') | None => None end end end
      end
  end.

(* a number may not continue with a fraction or an exponent: the whole text must be consumed *)
Definition parse (q : bytes) : option jv :=
  match pval (S (length q)) q with
  | Some (v, []) => Some v
  | _ => None
  end.

(* ---------------------------------------------------------------- base64 *)
Definition b64_char (n : N) : byte :=
  if n <? 26 then B (65 + n) else if n <? 52 then B (97 + n - 26) else if n <? 62 then B (48 + n - 52)
  else if n =? 62 then B 43 else B 47.

Definition b64_val (b : byte) : option N :=
  let n := b2n b in
  if (65 <=? n) && (n <=? 90) then Some (n - 65)
  else if (97 <=? n) && (n <=? 122) then Some (n - 97 + 26)
  else if (48 <=? n) && (n <=? 57) then Some (n - 48 + 52)
  else if n =? 43 then Some 62 else if n =? 47 then Some 63 else None.

Fixpoint b64e (q : bytes) : bytes :=
  match q with
  | [] => []
  | [a] => let n := b2n a * 65536 in [b64_char (n / 262144); b64_char ((n / 4096) mod 64); B 61; B 61]
  | [a; b] => let n := b2n a * 65536 + b2n b * 256 in
              [b64_char (n / 262144); b64_char ((n / 4096) mod 64); b64_char ((n / 64) mod 64); B 61]
  | a :: b :: c :: r => let n := b2n a * 65536 + b2n b * 256 + b2n c in
              b64_char (n / 262144) :: b64_char ((n / 4096) mod 64) :: b64_char ((n / 64) mod 64) :: b64_char (n mod 64) :: b64e r
  end.

Fixpoint b64d_go (fuel : nat) (q : bytes) : option bytes :=
  match fuel with
  | O => None
  | S f =>
      match q with
      | [] => Some []
      | [a; b; c; d] =>
          match b64_val a, b64_val b with
          | Some x, Some y =>
              if is c 61 then (if is d 61 then Some [B ((x * 64 + y) / 16)] else None)
              else match b64_val c with
                   | Some z =>
                       if is d 61 then let n := x * 4096 + y * 64 + z in Some [B (n / 1024); B ((n / 4) mod 256)]
                       else match b64_val d with
                            | Some w => let n := x * 262144 + y * 4096 + z * 64 + w in
                                        Some [B (n / 65536); B ((n / 256) mod 256); B (n mod 256)]
                            | None => None
                            end
                   | None => None
                   end
          | _, _ => None
          end
      | a :: b :: c :: d :: r =>
          match b64_val a, b64_val b, b64_val c, b64_val d with
          | Some x, Some y, Some z, Some w =>
              let n := x * 262144 + y * 4096 + z * 64 + w in
              match b64d_go f r with
              | Some t => Some (B (n / 65536) :: B ((n / 256) mod 256) :: B (n mod 256) :: t)
              | None => None
              end
          | _, _, _, _ => None
          end
      | _ => None
      end
  end.

Definition b64d (q : bytes) : option bytes := b64d_go (S (length q)) q.

(* the xml hop is outside the correspondence check of the model (mxj as a whole is an oracle) *)
Definition no_xml (s xp : bytes) : option bytes := None.

Definition redact_json (obj : jv) (args : list (list seg)) : jv :=
  redact_model parse render b64d b64e no_xml obj args.

(* ---------------------------------------------------------------- equality of values (check only) *)
Fixpoint jv_eqb (a b : jv) : bool :=
  match a, b with
  | JNull, JNull => true
  | JBool x, JBool y => Bool.eqb x y
  | JNum x, JNum y => Z.eqb x y
  | JStr x, JStr y => bytes_eqb x y
  | JArr x, JArr y =>
      (fix go (x y : list jv) : bool :=
         match x, y with
         | [], [] => true
         | u :: x', v :: y' => jv_eqb u v && go x' y'
         | _, _ => false
         end) x y
  | JObj x, JObj y =>
      (fix go (x y : list (bytes * jv)) : bool :=
         match x, y with
         | [], [] => true
         | (k, u) :: x', (k', v) :: y' => bytes_eqb k k' && jv_eqb u v && go x' y'
         | _, _ => false
         end) x y
  | _, _ => false
  end.
