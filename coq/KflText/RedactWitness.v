(* Concrete witnesses for C15 on the model instantiated with the JSON / base64 functions of
   RJson.v (the instantiation that the correspondence check compares with the implementation). *)
Require Import V.Base.Prelude V.KflText.Macro V.KflText.MacroProofs V.KflText.RJv V.KflText.Redact V.KflText.RedactSpec
  V.KflText.RJson V.KflText.RedactProofs V.KflText.RedactMulti V.KflText.RedactArgs.
Local Open Scope bool_scope.

Definition by_ (l : list N) : bytes := bs l.

(* {"a":[ "{"c":"zq0001x","d":"zq0002x"}" , "{"c":"zq0003x","e":"zq0004x"}" ]} *)
Definition doc1 : bytes := by_ [123;34;99;34;58;34;122;113;48;48;48;49;120;34;44;34;100;34;58;34;122;113;48;48;48;50;120;34;125]%N.
Definition doc2 : bytes := by_ [123;34;99;34;58;34;122;113;48;48;48;51;120;34;44;34;101;34;58;34;122;113;48;48;48;52;120;34;125]%N.
Definition wit_record : jv := JObj [(by_ [97]%N, JArr [JStr doc1; JStr doc2])].
(* redact("a[*].json().c") *)
Definition wit_arg : list seg :=
  [{| sjp := [Child (by_ [97]%N); Wild]; sxml := None |}; {| sjp := [Child (by_ [99]%N)]; sxml := None |}].
(* $.a[1].json().d : a location of the result that the record does not have *)
Definition wit_loc : loc := [SKey (by_ [97]%N); SIdx 1; SHop; SKey (by_ [100]%N)].

Lemma wit_wf : wf wit_record.
Proof. cbn [wf wit_record map fst snd]. repeat split; try exact I. constructor; [intros []|constructor]. Qed.

Lemma wit_ok : ok_arg wit_arg.
Proof. repeat constructor. Qed.

(* a wildcard in front of a hop: the first document is redacted and copied over the second one *)
Lemma wildcard_hop_refuted :
  exists r', redact_rec parse render b64d b64e no_xml wit_record wit_arg = Some r'
             /\ ~ no_location_added parse b64d wit_record r'.
Proof.
  eexists. split; [vm_compute; reflexivity|].
  intro H. apply (H wit_loc); vm_compute; [discriminate | reflexivity].
Qed.

(* the hypotheses of the one-argument theorem can be met and its conclusion is not vacuous:
   redact("a[0].json().c") on the same record puts the marker into the first document only *)
Definition ex_arg : list seg :=
  [{| sjp := [Child (by_ [97]%N); Nth 0]; sxml := None |}; {| sjp := [Child (by_ [99]%N)]; sxml := None |}].
Lemma example_redaction :
  exists r', redact_rec parse render b64d b64e no_xml wit_record ex_arg = Some r'
             /\ sub parse b64d r' [SKey (by_ [97]%N); SIdx 0; SHop; SKey (by_ [99]%N)] = Some MARK
             /\ sub parse b64d r' [SKey (by_ [97]%N); SIdx 0; SHop; SKey (by_ [100]%N)] = sub parse b64d wit_record [SKey (by_ [97]%N); SIdx 0; SHop; SKey (by_ [100]%N)]
             /\ sub parse b64d r' [SKey (by_ [97]%N); SIdx 1] = Some (JStr doc2).
Proof. eexists. split; [vm_compute; reflexivity|]. vm_compute. repeat split; reflexivity. Qed.

(* several overlapping paths: redact("a", "a.b", "d") on {"a":{"b":"zq0001x","c":"zq0002x"},"d":"zq0003x","e":"zq0004x"}.
   The three paths denote a, a.b and d in the record; a.b no longer exists when its turn comes (in
   the reversed order it is written first and then overwritten); both orders give the same record *)
Definition ka : bytes := by_ [97]%N.
Definition kb : bytes := by_ [98]%N.
Definition kc : bytes := by_ [99]%N.
Definition kd : bytes := by_ [100]%N.
Definition ke : bytes := by_ [101]%N.
Definition zq (n : N) : jv := JStr (by_ [122;113;48;48;48;n;120]%N).
Definition multi_record : jv :=
  JObj [(ka, JObj [(kb, zq 49); (kc, zq 50)]); (kd, zq 51); (ke, zq 52)].
Definition multi_paths : list (list frag) := [[Child ka]; [Child ka; Child kb]; [Child kd]].

Lemma multi_wf : wf multi_record.
Proof.
  cbn [wf multi_record map fst snd]. repeat split; try exact I; repeat (constructor; [cbn [In]; intros H; decompose [or] H; try discriminate; try contradiction|]); constructor.
Qed.

Lemma example_several_paths :
  wf multi_record
  /\ paths_denote multi_paths multi_record [SKey ka]
  /\ paths_denote multi_paths multi_record [SKey ka; SKey kb]
  /\ paths_denote multi_paths multi_record [SKey kd]
  /\ setm_all multi_paths multi_record = JObj [(ka, MARK); (kd, MARK); (ke, zq 52)]
  /\ setm_all (rev multi_paths) multi_record = JObj [(ka, MARK); (kd, MARK); (ke, zq 52)].
Proof.
  split; [exact multi_wf|]. split; [|split; [|split; [|split]]].
  - exists [Child ka]. split; [left; reflexivity|]. econstructor; [reflexivity | constructor].
  - exists [Child ka; Child kb]. split; [right; left; reflexivity|].
    econstructor; [reflexivity|]. econstructor; [reflexivity | constructor].
  - exists [Child kd]. split; [right; right; left; reflexivity|]. econstructor; [reflexivity | constructor].
  - vm_compute. reflexivity.
  - vm_compute. reflexivity.
Qed.

(* several arguments with hops: redact("a[0].json().c", "a[0].json().d", "a[1]") on wit_record.
   The second argument is evaluated on the record that the first one changed (the document in a[0]
   was re-encoded); every argument satisfies the hypotheses of the several-arguments theorem *)
Definition arg_c : list seg := ex_arg.
Definition arg_d : list seg :=
  [{| sjp := [Child ka; Nth 0]; sxml := None |}; {| sjp := [Child kd]; sxml := None |}].
Definition arg_1 : list seg := [{| sjp := [Child ka; Nth 1]; sxml := None |}].
Definition multi_args : list (list seg) := [arg_c; arg_d; arg_1].

Lemma single_a0 q : SingleHops parse b64d [[Child ka; Nth 0]; q] wit_record.
Proof.
  constructor.
  - intros L L' H H'. apply in_matches_iff in H, H'. vm_compute in H, H'.
    destruct H as [<-|[]], H' as [<-|[]]. reflexivity.
  - intros. constructor.
Qed.

Lemma multi_args_good : forall a, In a multi_args -> good_arg parse b64d wit_record a.
Proof.
  intros a [<-|[<-|[<-|[]]]]; (split; [discriminate|]); (split; [repeat constructor|]).
  - apply single_a0.
  - apply single_a0.
  - constructor.
Qed.

Lemma example_several_arguments :
  (forall a, In a multi_args -> good_arg parse b64d wit_record a)
  /\ args_denote parse b64d multi_args wit_record [SKey ka; SIdx 0; SHop; SKey kc]
  /\ args_denote parse b64d multi_args wit_record [SKey ka; SIdx 0; SHop; SKey kd]
  /\ args_denote parse b64d multi_args wit_record [SKey ka; SIdx 1]
  /\ exists r', redact_model parse render b64d b64e no_xml wit_record multi_args = r'
       /\ sub parse b64d r' [SKey ka; SIdx 0; SHop; SKey kc] = Some MARK
       /\ sub parse b64d r' [SKey ka; SIdx 0; SHop; SKey kd] = Some MARK
       /\ sub parse b64d r' [SKey ka; SIdx 1] = Some MARK.
Proof.
  split; [exact multi_args_good|]. split; [|split; [|split]].
  - exists arg_c. split; [left; reflexivity|].
    change [SKey ka; SIdx 0; SHop; SKey kc] with ([SKey ka; SIdx 0] ++ SHop :: [SKey kc]).
    eapply DA_hop.
    + econstructor; [reflexivity|]. econstructor; [reflexivity | reflexivity | constructor].
    + vm_compute. reflexivity.
    + vm_compute. reflexivity.
    + constructor. econstructor; [vm_compute; reflexivity | constructor].
  - exists arg_d. split; [right; left; reflexivity|].
    change [SKey ka; SIdx 0; SHop; SKey kd] with ([SKey ka; SIdx 0] ++ SHop :: [SKey kd]).
    eapply DA_hop.
    + econstructor; [reflexivity|]. econstructor; [reflexivity | reflexivity | constructor].
    + vm_compute. reflexivity.
    + vm_compute. reflexivity.
    + constructor. econstructor; [vm_compute; reflexivity | constructor].
  - exists arg_1. split; [right; right; left; reflexivity|]. constructor.
    econstructor; [reflexivity|]. econstructor; [reflexivity | reflexivity | constructor].
  - eexists. split; [reflexivity|]. vm_compute. repeat split; reflexivity.
Qed.
