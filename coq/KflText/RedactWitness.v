(* Concrete witnesses for C15 on the model instantiated with the JSON / base64 functions of
   RJson.v (the instantiation that the correspondence check compares with the implementation). *)
Require Import V.Base.Prelude V.KflText.Macro V.KflText.MacroProofs V.KflText.RJv V.KflText.Redact V.KflText.RedactSpec
  V.KflText.RJson V.KflText.RedactProofs.
Local Open Scope bool_scope.

Definition by_ (l : list N) : bytes := bs l.

(* {"a":[ "{"c":"zq0001x","d":"zq0002x"}" , "{"c":"zq0003x","e":"zq0004x"}" ]} *)
Definition doc1 : bytes := by_ [123;34;99;34;58;34;122;113;48;48;48;49;120;34;44;34;100;34;58;34;122;113;48;48;48;50;120;34;125]%N.
Definition doc2 : bytes := by_ [123;34;99;34;58;34;122;113;48;48;48;51;120;34;44;34;101;34;58;34;122;113;48;48;48;52;120;34;125]%N.
Definition wit_record : jv := JObj [(by_ [97]%N, JArr [JStr doc1; JStr doc2])].
(* redact("a[*].json().c") *)
Definition wit_arg : list seg :=
  [{| sjp := [Child (by_ [97]%N); Wild]; sxml := None |}; {| sjp := [Child (by_ [99]%N)]; sxml := None |}].
(* $.a[1].json().d : a location of the result that the record does not have *)
Definition wit_loc : loc := [SKey (by_ [97]%N); SIdx 1; SHop; SKey (by_ [100]%N)].

Lemma wit_wf : wf wit_record.
Proof. cbn [wf wit_record map fst snd]. repeat split; try exact I. constructor; [intros []|constructor]. Qed.

Lemma wit_ok : ok_arg wit_arg.
Proof. repeat constructor. Qed.

(* a wildcard in front of a hop: the first document is redacted and copied over the second one *)
Lemma wildcard_hop_refuted :
  exists r', redact_rec parse render b64d b64e no_xml wit_record wit_arg = Some r'
             /\ ~ no_location_added parse b64d wit_record r'.
Proof.
  eexists. split; [vm_compute; reflexivity|].
  intro H. apply (H wit_loc); vm_compute; [discriminate | reflexivity].
Qed.

(* the hypotheses of the one-argument theorem can be met and its conclusion is not vacuous:
   redact("a[0].json().c") on the same record puts the marker into the first document only *)
Definition ex_arg : list seg :=
  [{| sjp := [Child (by_ [97]%N); Nth 0]; sxml := None |}; {| sjp := [Child (by_ [99]%N)]; sxml := None |}].
Lemma example_redaction :
  exists r', redact_rec parse render b64d b64e no_xml wit_record ex_arg = Some r'
             /\ sub parse b64d r' [SKey (by_ [97]%N); SIdx 0; SHop; SKey (by_ [99]%N)] = Some MARK
             /\ sub parse b64d r' [SKey (by_ [97]%N); SIdx 0; SHop; SKey (by_ [100]%N)] = sub parse b64d wit_record [SKey (by_ [97]%N); SIdx 0; SHop; SKey (by_ [100]%N)]
             /\ sub parse b64d r' [SKey (by_ [97]%N); SIdx 1] = Some (JStr doc2).
Proof. eexists. split; [vm_compute; reflexivity|]. vm_compute. repeat split; reflexivity. Qed.
