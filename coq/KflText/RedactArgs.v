(* C15, several ARGUMENTS of redact in sequence (redact_model), with json() hops.
   RedP P v v1: v1 is v with some subtrees replaced by the marker, only at locations of P, and with
   nested documents re-encoded where something inside them was marked.  Every step of redact_model
   keeps RedP (with P = the locations denoted in the ORIGINAL record by the arguments so far);
   frame / leaves_from_original / no_location_added follow from RedP, marker_at_denoted is carried
   along as a second invariant. *)
Require Import V.Base.Prelude V.KflText.Macro V.KflText.MacroProofs V.KflText.RJv V.KflText.Redact V.KflText.RedactSpec
  V.KflText.RedactProofs V.KflText.RedactMulti.
From Coq Require Import Permutation.
Local Open Scope bool_scope.

(* ------------------------------------------------------------------ lists *)
Lemma nth_error_same_length {A B} (xs : list A) (ys : list B) n y :
  length xs = length ys -> nth_error ys n = Some y -> exists x, nth_error xs n = Some x.
Proof.
  intros E H. destruct (nth_error xs n) as [x|] eqn:N; [eauto|].
  apply nth_error_None in N. assert (nth_error ys n <> None) by congruence. apply nth_error_Some in H0. lia.
Qed.

Lemma list_eq_nth {A} : forall (xs ys : list A), length xs = length ys ->
  (forall n x y, nth_error xs n = Some x -> nth_error ys n = Some y -> y = x) -> ys = xs.
Proof.
  induction xs as [|x xs IH]; intros [|y ys] E H; try discriminate; [reflexivity|].
  f_equal; [exact (H 0%nat x y eq_refl eq_refl)|]. apply IH; [cbn [length] in E; lia|].
  intros n a b Ha Hb. exact (H (S n) a b Ha Hb).
Qed.

Lemma map_fst_length (kvs kvs' : list (bytes * jv)) : map fst kvs = map fst kvs' -> length kvs = length kvs'.
Proof. intro E. rewrite <- (map_length fst kvs), E. apply map_length. Qed.

Lemma map_fst_nth (kvs kvs' : list (bytes * jv)) n kv kv' : map fst kvs = map fst kvs' ->
  nth_error kvs n = Some kv -> nth_error kvs' n = Some kv' -> fst kv = fst kv'.
Proof.
  intros E H H'. assert (X : nth_error (map fst kvs) n = nth_error (map fst kvs') n) by (rewrite E; reflexivity).
  rewrite !nth_error_map, H, H' in X. cbn [option_map] in X. congruence.
Qed.

(* the entry that lookup finds sits at the same position in a list with the same keys *)
Lemma lookup_pos : forall (kvs kvs' : list (bytes * jv)) k y, map fst kvs = map fst kvs' -> lookup k kvs' = Some y ->
  exists n x, nth_error kvs n = Some (k, x) /\ nth_error kvs' n = Some (k, y) /\ lookup k kvs = Some x.
Proof.
  induction kvs as [|[k0 x0] kvs IH]; intros [|[k1 y1] kvs'] k y E H; try discriminate.
  cbn [map fst] in E. injection E as <- E. cbn [lookup] in H |- *. destruct (bytes_eqb k k0) eqn:B.
  - apply bytes_eqb_eq in B. subst k0. injection H as <-. exists 0%nat, x0. auto.
  - destruct (IH kvs' k y E H) as (n & x & H1 & H2 & H3). exists (S n), x. auto.
Qed.

Lemma set_nth_length n g : forall l, length (set_nth n g l) = length l.
Proof. revert n. intros n l. revert n. induction l as [|x r IH]; intros [|n]; cbn [set_nth length]; try reflexivity. rewrite IH. reflexivity. Qed.

Lemma set_key_fst k g kvs : map fst (set_key k g kvs) = map fst kvs.
Proof. unfold set_key. rewrite map_map. apply map_ext. intro kv. destruct (bytes_eqb k (fst kv)); reflexivity. Qed.

Section Red.
  Variable parse : bytes -> option jv.
  Variable b64d : bytes -> option bytes.
  Hypothesis Hmark : decode parse b64d REDACTED = None.
  Notation sub := (sub parse b64d).
  Notation decode := (decode parse b64d).

  Inductive RedP : (loc -> Prop) -> jv -> jv -> Prop :=
  | RP_mark (P : loc -> Prop) v : P [] -> RedP P v MARK
  | RP_refl (P : loc -> Prop) v : RedP P v v
  | RP_arr (P : loc -> Prop) xs ys : length xs = length ys ->
      (forall n x y, nth_error xs n = Some x -> nth_error ys n = Some y -> RedP (fun L => P (SIdx n :: L)) x y) ->
      RedP P (JArr xs) (JArr ys)
  | RP_obj (P : loc -> Prop) kvs kvs' : map fst kvs = map fst kvs' ->
      (forall n kv kv', nth_error kvs n = Some kv -> nth_error kvs' n = Some kv' ->
                        RedP (fun L => P (SKey (fst kv) :: L)) (snd kv) (snd kv')) ->
      RedP P (JObj kvs) (JObj kvs')
  | RP_hop (P : loc -> Prop) t t' i i' : decode t = Some i -> decode t' = Some i' -> (exists L, P (SHop :: L)) ->
      RedP (fun L => P (SHop :: L)) i i' -> RedP P (JStr t) (JStr t').

  Lemma RedP_mono P v v1 : RedP P v v1 -> forall Q : loc -> Prop, (forall L, P L -> Q L) -> RedP Q v v1.
  Proof.
    induction 1 as [P v H0|P v|P xs ys El _ IH|P kvs kvs' Ek _ IH|P t t' i i' Dt Dt' [Lw Hw] _ IH]; intros Q HQ.
    - apply RP_mark, HQ, H0.
    - apply RP_refl.
    - apply RP_arr; [exact El|]. intros n x y Hx Hy. apply (IH n x y Hx Hy). intros L. apply HQ.
    - apply RP_obj; [exact Ek|]. intros n kv kv' Hx Hy. apply (IH n kv kv' Hx Hy). intros L. apply HQ.
    - eapply RP_hop; [exact Dt | exact Dt' | exists Lw; apply HQ, Hw |]. apply IH. intros L. apply HQ.
  Qed.

  (* inversion with the reflexive case folded in *)
  Lemma RedP_arr_back P v ys : RedP P v (JArr ys) ->
    exists xs, v = JArr xs /\ length xs = length ys /\
      forall n x y, nth_error xs n = Some x -> nth_error ys n = Some y -> RedP (fun L => P (SIdx n :: L)) x y.
  Proof.
    intro H. inversion H; subst.
    - exists ys. repeat split. intros n x y Hx Hy. rewrite Hx in Hy. injection Hy as <-. apply RP_refl.
    - exists xs. auto.
  Qed.

  Lemma RedP_obj_back P v kvs' : RedP P v (JObj kvs') ->
    exists kvs, v = JObj kvs /\ map fst kvs = map fst kvs' /\
      forall n kv kv', nth_error kvs n = Some kv -> nth_error kvs' n = Some kv' ->
                       RedP (fun L => P (SKey (fst kv) :: L)) (snd kv) (snd kv').
  Proof.
    intro H. inversion H; subst.
    - exists kvs'. repeat split. intros n x y Hx Hy. rewrite Hx in Hy. injection Hy as <-. apply RP_refl.
    - exists kvs. auto.
  Qed.

  Lemma RedP_arr_fwd P xs v1 : RedP P (JArr xs) v1 ->
    (v1 = MARK /\ P []) \/
    exists ys, v1 = JArr ys /\ length xs = length ys /\
      forall n x y, nth_error xs n = Some x -> nth_error ys n = Some y -> RedP (fun L => P (SIdx n :: L)) x y.
  Proof.
    intro H. inversion H; subst.
    - left. auto.
    - right. exists xs. repeat split. intros n x y Hx Hy. rewrite Hx in Hy. injection Hy as <-. apply RP_refl.
    - right. exists ys. auto.
  Qed.

  Lemma RedP_obj_fwd P kvs v1 : RedP P (JObj kvs) v1 ->
    (v1 = MARK /\ P []) \/
    exists kvs', v1 = JObj kvs' /\ map fst kvs = map fst kvs' /\
      forall n kv kv', nth_error kvs n = Some kv -> nth_error kvs' n = Some kv' ->
                       RedP (fun L => P (SKey (fst kv) :: L)) (snd kv) (snd kv').
  Proof.
    intro H. inversion H; subst.
    - left. auto.
    - right. exists kvs. repeat split. intros n x y Hx Hy. rewrite Hx in Hy. injection Hy as <-. apply RP_refl.
    - right. exists kvs'. auto.
  Qed.

  (* a string: unchanged, marked, or a re-encoded nested document *)
  Lemma RedP_str_back P v t' : RedP P v (JStr t') ->
    (t' = REDACTED /\ P []) \/ v = JStr t' \/
    exists t i i', v = JStr t /\ decode t = Some i /\ decode t' = Some i' /\ (exists L, P (SHop :: L))
                   /\ RedP (fun L => P (SHop :: L)) i i'.
  Proof.
    intro H. inversion H; subst.
    - left. auto.
    - right. left. reflexivity.
    - right. right. exists t, i, i'. auto.
  Qed.

  Lemma RedP_str_fwd P t v1 : RedP P (JStr t) v1 ->
    (v1 = MARK /\ P []) \/ v1 = JStr t \/
    exists t' i i', v1 = JStr t' /\ decode t = Some i /\ decode t' = Some i' /\ (exists L, P (SHop :: L))
                    /\ RedP (fun L => P (SHop :: L)) i i'.
  Proof.
    intro H. inversion H; subst.
    - left. auto.
    - right. left. reflexivity.
    - right. right. exists t', i, i'. auto.
  Qed.

  Lemma RedP_leaf_fwd P v v1 : RedP P v v1 -> is_leaf v -> (forall t, v <> JStr t) -> (v1 = MARK /\ P []) \/ v1 = v.
  Proof.
    intros H Hl Hs. inversion H; subst; try contradiction; auto. exfalso. exact (Hs t eq_refl).
  Qed.

  (* nothing may be marked: nothing changes *)
  Lemma RedP_empty P v v1 : RedP P v v1 -> (forall d, ~ P d) -> v1 = v.
  Proof.
    induction 1 as [P v H0|P v|P xs ys El _ IH|P kvs kvs' Ek _ IH|P t t' i i' Dt Dt' [Lw Hw] _ IH]; intro HN.
    - exfalso. exact (HN _ H0).
    - reflexivity.
    - f_equal. apply list_eq_nth; [exact El|]. intros n x y Hx Hy. apply (IH n x y Hx Hy). intros d. apply HN.
    - f_equal. apply list_eq_nth; [apply map_fst_length, Ek|]. intros n kv kv' Hx Hy.
      pose proof (map_fst_nth _ _ _ _ _ Ek Hx Hy) as Ef.
      assert (Es : snd kv' = snd kv) by (apply (IH n kv kv' Hx Hy); intros d; apply HN).
      destruct kv, kv'; cbn [fst snd] in *; congruence.
    - exfalso. exact (HN _ Hw).
  Qed.

  (* a location of the result is a location of the record, and the values there are related *)
  Lemma RedP_sub_back : forall L (P : loc -> Prop) v v1 x1, RedP P v v1 -> sub v1 L = Some x1 ->
    exists x, sub v L = Some x /\ RedP (fun R => P (L ++ R)) x x1.
  Proof.
    induction L as [|s L IH]; intros P v v1 x1 H S.
    - cbn [RedactSpec.sub] in S. injection S as <-. exists v. split; [reflexivity | exact H].
    - destruct s as [k|n|]; cbn [RedactSpec.sub] in S.
      + destruct v1 as [| | | | |kvs']; try discriminate.
        destruct (RedP_obj_back _ _ _ H) as (kvs & -> & Ek & Hc).
        destruct (lookup k kvs') as [y|] eqn:Lk; [|discriminate].
        destruct (lookup_pos kvs kvs' k y Ek Lk) as (n & x & N1 & N2 & L1).
        destruct (IH _ _ _ _ (Hc n _ _ N1 N2) S) as (x0 & S0 & R0).
        exists x0. cbn [RedactSpec.sub]. rewrite L1. split; [exact S0 | exact R0].
      + destruct v1 as [| | | |ys|]; try discriminate.
        destruct (RedP_arr_back _ _ _ H) as (xs & -> & El & Hc).
        destruct (nth_error ys n) as [y|] eqn:Ny; [|discriminate].
        destruct (nth_error_same_length xs ys n y El Ny) as [x Nx].
        destruct (IH _ _ _ _ (Hc n _ _ Nx Ny) S) as (x0 & S0 & R0).
        exists x0. cbn [RedactSpec.sub]. rewrite Nx. split; [exact S0 | exact R0].
      + destruct v1 as [| | |t'| |]; try discriminate.
        destruct (decode t') as [i'|] eqn:Dt'; [|discriminate].
        destruct (RedP_str_back _ _ _ H) as [[-> _]|[->|(t & i & i'' & -> & Dt & Dt'' & _ & Hc)]].
        * rewrite Hmark in Dt'. discriminate.
        * exists x1. cbn [RedactSpec.sub]. rewrite Dt'. split; [exact S | apply RP_refl].
        * rewrite Dt' in Dt''. injection Dt'' as <-.
          destruct (IH _ _ _ _ Hc S) as (x0 & S0 & R0).
          exists x0. cbn [RedactSpec.sub]. rewrite Dt. split; [exact S0 | exact R0].
  Qed.

  (* a location of the record is a location of the result unless it passes through a marked one *)
  Lemma RedP_sub_fwd : forall L (P : loc -> Prop) v v1 x, RedP P v v1 -> sub v L = Some x ->
    (exists x1, sub v1 L = Some x1 /\ RedP (fun R => P (L ++ R)) x x1)
    \/ (exists L0 Lr, L = L0 ++ Lr /\ P L0 /\ sub v1 L0 = Some MARK).
  Proof.
    induction L as [|s L IH]; intros P v v1 x H S.
    - cbn [RedactSpec.sub] in S. injection S as <-. left. exists v1. split; [reflexivity | exact H].
    - destruct s as [k|n|]; cbn [RedactSpec.sub] in S.
      + destruct v as [| | | | |kvs]; try discriminate.
        destruct (RedP_obj_fwd _ _ _ H) as [[-> H0]|(kvs' & -> & Ek & Hc)];
          [right; exists [], (SKey k :: L); repeat split; exact H0|].
        destruct (lookup k kvs) as [c|] eqn:Lk; [|discriminate].
        destruct (lookup_pos kvs' kvs k c (eq_sym Ek) Lk) as (n & y & N1 & N2 & L1).
        destruct (IH _ _ _ _ (Hc n _ _ N2 N1) S) as [(x1 & S1 & R1)|(L0 & Lr & -> & H0 & S0)].
        * left. exists x1. cbn [RedactSpec.sub]. rewrite L1. split; [exact S1 | exact R1].
        * right. exists (SKey k :: L0), Lr. cbn [RedactSpec.sub]. rewrite L1. repeat split; [exact H0 | exact S0].
      + destruct v as [| | | |xs|]; try discriminate.
        destruct (RedP_arr_fwd _ _ _ H) as [[-> H0]|(ys & -> & El & Hc)];
          [right; exists [], (SIdx n :: L); repeat split; exact H0|].
        destruct (nth_error xs n) as [c|] eqn:Nx; [|discriminate].
        destruct (nth_error_same_length ys xs n c (eq_sym El) Nx) as [y Ny].
        destruct (IH _ _ _ _ (Hc n _ _ Nx Ny) S) as [(x1 & S1 & R1)|(L0 & Lr & -> & H0 & S0)].
        * left. exists x1. cbn [RedactSpec.sub]. rewrite Ny. split; [exact S1 | exact R1].
        * right. exists (SIdx n :: L0), Lr. cbn [RedactSpec.sub]. rewrite Ny. repeat split; [exact H0 | exact S0].
      + destruct v as [| | |t| |]; try discriminate.
        destruct (decode t) as [i|] eqn:Dt; [|discriminate].
        destruct (RedP_str_fwd _ _ _ H) as [[-> H0]|[->|(t' & i0 & i' & -> & Dt0 & Dt' & _ & Hc)]].
        * right. exists [], (SHop :: L). repeat split; exact H0.
        * left. exists x. cbn [RedactSpec.sub]. rewrite Dt. split; [exact S | apply RP_refl].
        * rewrite Dt in Dt0. injection Dt0 as <-.
          destruct (IH _ _ _ _ Hc S) as [(x1 & S1 & R1)|(L0 & Lr & -> & H0 & S0)].
          -- left. exists x1. cbn [RedactSpec.sub]. rewrite Dt'. split; [exact S1 | exact R1].
          -- right. exists (SHop :: L0), Lr. cbn [RedactSpec.sub]. rewrite Dt'. repeat split; [exact H0 | exact S0].
  Qed.

  Lemma RedP_frame : forall L (P : loc -> Prop) v v1 x, RedP P v v1 -> sub v L = Some x ->
    (forall d, P d -> ~ comparable d L) -> sub v1 L = Some x.
  Proof.
    induction L as [|s L IH]; intros P v v1 x H S Hd.
    - rewrite (RedP_empty P v v1 H); [exact S|]. intros d Pd. exact (Hd d Pd (comparable_nil d)).
    - assert (Hsh : forall d, P (s :: d) -> ~ comparable d L).
      { intros d Pd C. exact (Hd _ Pd (comparable_cons s d L C)). }
      assert (H0 : ~ P []).
      { intro P0. apply (Hd [] P0). left. exists (s :: L). reflexivity. }
      destruct s as [k|n|]; cbn [RedactSpec.sub] in S.
      + destruct v as [| | | | |kvs]; try discriminate.
        destruct (RedP_obj_fwd _ _ _ H) as [[_ P0]|(kvs' & -> & Ek & Hc)]; [contradiction|].
        destruct (lookup k kvs) as [c|] eqn:Lk; [|discriminate].
        destruct (lookup_pos kvs' kvs k c (eq_sym Ek) Lk) as (n & y & N1 & N2 & L1).
        cbn [RedactSpec.sub]. rewrite L1. exact (IH _ _ _ _ (Hc n _ _ N2 N1) S Hsh).
      + destruct v as [| | | |xs|]; try discriminate.
        destruct (RedP_arr_fwd _ _ _ H) as [[_ P0]|(ys & -> & El & Hc)]; [contradiction|].
        destruct (nth_error xs n) as [c|] eqn:Nx; [|discriminate].
        destruct (nth_error_same_length ys xs n c (eq_sym El) Nx) as [y Ny].
        cbn [RedactSpec.sub]. rewrite Ny. exact (IH _ _ _ _ (Hc n _ _ Nx Ny) S Hsh).
      + destruct v as [| | |t| |]; try discriminate.
        destruct (decode t) as [i|] eqn:Dt; [|discriminate].
        destruct (RedP_str_fwd _ _ _ H) as [[_ P0]|[->|(t' & i0 & i' & -> & Dt0 & Dt' & _ & Hc)]]; [contradiction| |].
        * cbn [RedactSpec.sub]. rewrite Dt. exact S.
        * rewrite Dt in Dt0. injection Dt0 as <-. cbn [RedactSpec.sub]. rewrite Dt'. exact (IH _ _ _ _ Hc S Hsh).
  Qed.

  Lemma RedP_uleaf P x x1 : RedP P x x1 -> is_uleaf parse b64d x1 -> x1 = MARK \/ x = x1.
  Proof.
    intros H [Hl Hu]. inversion H; subst; try contradiction; auto.
    rewrite (Hu t' eq_refl) in H1. discriminate.
  Qed.

  Lemma RedP_from_mark P x1 : RedP P MARK x1 -> x1 = MARK.
  Proof.
    intro H. destruct (RedP_str_fwd _ _ _ H) as [[-> _]|[->|(t' & i0 & i' & _ & Dt0 & _)]]; try reflexivity.
    rewrite Hmark in Dt0. discriminate.
  Qed.

  (* one redaction after another *)
  Lemma RedP_trans P v v1 : RedP P v v1 -> forall (Q : loc -> Prop) v2, RedP Q v1 v2 -> RedP (fun L => P L \/ Q L) v v2.
  Proof.
    induction 1 as [P v H0|P v|P xs ys El Hc IH|P kvs kvs' Ek Hc IH|P t t' i i' Dt Dt' [Lw Hw] Hc IH]; intros Q v2 H2.
    - rewrite (RedP_from_mark _ _ H2). apply RP_mark. left. exact H0.
    - eapply RedP_mono; [exact H2|]. intros L HL. right. exact HL.
    - destruct (RedP_arr_fwd _ _ _ H2) as [[-> Q0]|(zs & -> & El' & Hc')]; [apply RP_mark; right; exact Q0|].
      apply RP_arr; [congruence|]. intros n x z Nx Nz.
      destruct (nth_error_same_length ys zs n z El' Nz) as [y Ny].
      exact (IH n x y Nx Ny _ _ (Hc' n y z Ny Nz)).
    - destruct (RedP_obj_fwd _ _ _ H2) as [[-> Q0]|(kvs'' & -> & Ek' & Hc')]; [apply RP_mark; right; exact Q0|].
      apply RP_obj; [congruence|]. intros n kv kv'' Nx Nz.
      destruct (nth_error_same_length kvs' kvs'' n kv'' (map_fst_length _ _ Ek') Nz) as [kv' Ny].
      pose proof (Hc' n kv' kv'' Ny Nz) as H'. rewrite <- (map_fst_nth _ _ _ _ _ Ek Nx Ny) in H'.
      exact (IH n kv kv' Nx Ny _ _ H').
    - destruct (RedP_str_fwd _ _ _ H2) as [[-> Q0]|[->|(t'' & i0 & i'' & -> & Dt0 & Dt'' & _ & Hc')]].
      + apply RP_mark. right. exact Q0.
      + eapply RP_hop; [exact Dt | exact Dt' | exists Lw; left; exact Hw|].
        eapply RedP_mono; [exact Hc|]. intros L HL. left. exact HL.
      + rewrite Dt' in Dt0. injection Dt0 as <-.
        eapply RP_hop; [exact Dt | exact Dt'' | exists Lw; left; exact Hw|]. exact (IH _ _ Hc').
  Qed.


  (* ---------------------------------------------------------------- well-formedness is kept *)
  Lemma wf_arr_intro xs : (forall n c, nth_error xs n = Some c -> wf c) -> wf (JArr xs).
  Proof.
    cbn [wf]. induction xs as [|x r IH]; intro H; [exact I|]. split; [exact (H 0%nat x eq_refl)|].
    apply IH. intros n c Hn. exact (H (S n) c Hn).
  Qed.

  Lemma wf_obj_intro kvs : NoDup (map fst kvs) -> (forall n kv, nth_error kvs n = Some kv -> wf (snd kv)) -> wf (JObj kvs).
  Proof.
    cbn [wf]. intros Hnd H. split; [exact Hnd|]. clear Hnd. induction kvs as [|x r IH]; [exact I|].
    split; [exact (H 0%nat x eq_refl)|]. apply IH. intros n c Hn. exact (H (S n) c Hn).
  Qed.

  Lemma wf_obj_nth kvs n kv : wf (JObj kvs) -> nth_error kvs n = Some kv -> wf (snd kv) /\ lookup (fst kv) kvs = Some (snd kv).
  Proof.
    intros Hw Hn. apply nth_error_In in Hn. destruct kv as [k c]. cbn [fst snd].
    destruct (wf_obj_in kvs Hw k c Hn) as [Lk Wc]. auto.
  Qed.

  Lemma RedP_wf P v v1 : RedP P v v1 -> wf v -> wf v1.
  Proof.
    induction 1 as [P v H0|P v|P xs ys El _ IH|P kvs kvs' Ek _ IH|P t t' i i' Dt Dt' _ _ IH]; intro Hw.
    - exact I.
    - exact Hw.
    - apply wf_arr_intro. intros n y Ny. destruct (nth_error_same_length xs ys n y El Ny) as [x Nx].
      exact (IH n x y Nx Ny (wf_arr xs Hw n x Nx)).
    - apply wf_obj_intro.
      + rewrite <- Ek. cbn [wf] in Hw. exact (proj1 Hw).
      + intros n kv' Ny. destruct (nth_error_same_length kvs kvs' n kv' (map_fst_length _ _ Ek) Ny) as [kv Nx].
        exact (IH n kv kv' Nx Ny (proj1 (wf_obj_nth kvs n kv Hw Nx))).
    - exact I.
  Qed.

  (* ---------------------------------------------------------------- the writes of the model are redactions *)
  Lemma mark_RedP v : forall D, RedP (fun L => In L D) v (mark D v).
  Proof.
    induction v as [| | | |l IH|kvs IH] using jv_ind'; intro D; rewrite mark_unfold;
      (destruct (has_nil D) eqn:Hn; [apply RP_mark, has_nil_spec, Hn|]); try apply RP_refl.
    - apply RP_arr; [symmetry; apply mark_arr_length|]. intros n x y Nx Ny.
      rewrite nth_mark_arr, Nx in Ny. cbn [option_map Nat.add] in Ny. injection Ny as <-.
      rewrite Forall_forall in IH. eapply RedP_mono; [apply (IH x (nth_error_In _ _ Nx))|].
      intros L HL. apply in_under, HL.
    - apply RP_obj; [unfold mark_obj; rewrite map_map; reflexivity|]. intros n kv kv' Nx Ny.
      unfold mark_obj in Ny. rewrite nth_error_map, Nx in Ny. cbn [option_map] in Ny. injection Ny as <-. cbn [snd].
      rewrite Forall_forall in IH. eapply RedP_mono; [apply (IH kv (nth_error_In _ _ Nx))|].
      intros L HL. apply in_under, HL.
  Qed.

  (* writing a re-encoded nested document back through the location of the string that held it *)
  Lemma set_at_RedP s' inner' (Q : loc -> Prop) : decode s' = Some inner' -> (exists L2, Q L2) ->
    forall L1 r s inner, wf r -> hopfree L1 -> sub r L1 = Some (JStr s) -> decode s = Some inner ->
    RedP Q inner inner' ->
    RedP (fun L => exists L2, L = L1 ++ SHop :: L2 /\ Q L2) r (set_at (JStr s') L1 r).
  Proof.
    intros Dec' [Lw Hw]. induction L1 as [|a L1 IH]; intros r s inner Hwf Hf S Dec HR.
    - cbn [RedactSpec.sub] in S. injection S as ->. cbn [set_at].
      eapply RP_hop; [exact Dec | exact Dec' | exists Lw, Lw; auto|].
      eapply RedP_mono; [exact HR|]. intros L HL. exists L. auto.
    - pose proof (Forall_inv Hf) as Ha. pose proof (Forall_inv_tail Hf) as Hf'. cbn beta in Ha.
      destruct a as [k|n|]; [| |congruence]; cbn [RedactSpec.sub] in S.
      + destruct r as [| | | | |kvs]; try discriminate. destruct (lookup k kvs) as [c|] eqn:Lk; [|discriminate].
        cbn [set_at]. apply RP_obj; [symmetry; apply set_key_fst|]. intros n kv kv' Nx Ny.
        unfold set_key in Ny. rewrite nth_error_map, Nx in Ny. cbn [option_map] in Ny. injection Ny as <-.
        destruct (wf_obj_nth kvs n kv Hwf Nx) as [Wc Lc].
        destruct (bytes_eqb k (fst kv)) eqn:B; [|apply RP_refl].
        apply bytes_eqb_eq in B. subst k. rewrite Lk in Lc. injection Lc as ->. cbn [snd].
        eapply RedP_mono; [exact (IH _ _ _ Wc Hf' S Dec HR)|].
        intros L (L2 & -> & H2). exists L2. auto.
      + destruct r as [| | | |xs|]; try discriminate. destruct (nth_error xs n) as [c|] eqn:Nc; [|discriminate].
        cbn [set_at]. apply RP_arr; [symmetry; apply set_nth_length|]. intros m x y Nx Ny.
        rewrite set_nth_nth in Ny. destruct (Nat.eqb n m) eqn:B.
        * apply Nat.eqb_eq in B. subst m. rewrite Nx in Ny, Nc. injection Nc as ->. cbn [option_map] in Ny. injection Ny as <-.
          eapply RedP_mono; [exact (IH _ _ _ (wf_arr xs Hwf n c Nx) Hf' S Dec HR)|].
          intros L (L2 & -> & H2). exists L2. auto.
        * rewrite Nx in Ny. injection Ny as <-. apply RP_refl.
  Qed.

  (* ---------------------------------------------------------------- what a path denotes before and after *)
  Lemma RedP_denotes_back fs v1 L : Denotes fs v1 L -> forall (P : loc -> Prop) v, RedP P v v1 -> Denotes fs v L.
  Proof.
    induction 1 as [v1|k rest kvs c L Lk _ IH|i rest xs n c L Ni Nn _ IH|rest xs n c L Nn _ IH
                    |rest kvs k c L Hin _ IH|rest v1 L _ IH|rest xs n c L Nn HD IH|rest kvs k c L Hin HD IH];
      intros P v HR.
    - constructor.
    - destruct (RedP_obj_back _ _ _ HR) as (kvs0 & -> & Ek & Hc).
      destruct (lookup_pos kvs0 kvs k c Ek Lk) as (n & x & N1 & N2 & L1).
      econstructor; [exact L1 | exact (IH _ _ (Hc n _ _ N1 N2))].
    - destruct (RedP_arr_back _ _ _ HR) as (xs0 & -> & El & Hc).
      destruct (nth_error_same_length xs0 xs n c El Nn) as [x Nx].
      econstructor; [rewrite El; exact Ni | exact Nx | exact (IH _ _ (Hc n _ _ Nx Nn))].
    - destruct (RedP_arr_back _ _ _ HR) as (xs0 & -> & El & Hc).
      destruct (nth_error_same_length xs0 xs n c El Nn) as [x Nx].
      econstructor; [exact Nx | exact (IH _ _ (Hc n _ _ Nx Nn))].
    - destruct (RedP_obj_back _ _ _ HR) as (kvs0 & -> & Ek & Hc).
      apply In_nth_error in Hin. destruct Hin as [n Ny].
      destruct (nth_error_same_length kvs0 kvs n _ (map_fst_length _ _ Ek) Ny) as [[k0 x] Nx].
      pose proof (map_fst_nth _ _ _ _ _ Ek Nx Ny) as Ef. cbn [fst] in Ef. subst k0.
      econstructor; [exact (nth_error_In _ _ Nx) | exact (IH _ _ (Hc n _ _ Nx Ny))].
    - apply D_desc_here. exact (IH _ _ HR).
    - destruct (RedP_arr_back _ _ _ HR) as (xs0 & -> & El & Hc).
      destruct (nth_error_same_length xs0 xs n c El Nn) as [x Nx].
      eapply D_desc_arr; [exact Nx | exact (IH _ _ (Hc n _ _ Nx Nn))].
    - destruct (RedP_obj_back _ _ _ HR) as (kvs0 & -> & Ek & Hc).
      apply In_nth_error in Hin. destruct Hin as [n Ny].
      destruct (nth_error_same_length kvs0 kvs n _ (map_fst_length _ _ Ek) Ny) as [[k0 x] Nx].
      pose proof (map_fst_nth _ _ _ _ _ Ek Nx Ny) as Ef. cbn [fst] in Ef. subst k0.
      eapply D_desc_obj; [exact (nth_error_In _ _ Nx) | exact (IH _ _ (Hc n _ _ Nx Ny))].
  Qed.

  Definition marked_prefix (P : loc -> Prop) (v1 : jv) (L : loc) : Prop :=
    exists L0 Lr, L = L0 ++ Lr /\ P L0 /\ sub v1 L0 = Some MARK.

  Lemma marked_prefix_step (P : loc -> Prop) s c1 v1 L :
    (forall R, sub v1 (s :: R) = sub c1 R) -> marked_prefix (fun R => P (s :: R)) c1 L -> marked_prefix P v1 (s :: L).
  Proof.
    intros E (L0 & Lr & -> & H0 & S0). exists (s :: L0), Lr. repeat split; [exact H0 | rewrite E; exact S0].
  Qed.

  Lemma RedP_denotes_fwd fs v L : Denotes fs v L -> forall (P : loc -> Prop) v1, wf v1 -> RedP P v v1 ->
    Denotes fs v1 L \/ marked_prefix P v1 L.
  Proof.
    induction 1 as [v|k rest kvs c L Lk _ IH|i rest xs n c L Ni Nn _ IH|rest xs n c L Nn _ IH
                    |rest kvs k c L Hin _ IH|rest v L _ IH|rest xs n c L Nn HD IH|rest kvs k c L Hin HD IH];
      intros P v1 Hw HR.
    - left. constructor.
    - destruct (RedP_obj_fwd _ _ _ HR) as [[-> H0]|(kvs' & -> & Ek & Hc)]; [right; exists [], (SKey k :: L); repeat split; exact H0|].
      destruct (lookup_pos kvs' kvs k c (eq_sym Ek) Lk) as (n & y & N1 & N2 & L1).
      destruct (IH _ _ (wf_obj_lookup kvs' Hw k y L1) (Hc n _ _ N2 N1)) as [H|H].
      + left. econstructor; [exact L1 | exact H].
      + right. eapply marked_prefix_step; [|exact H]. intro R. cbn [RedactSpec.sub]. rewrite L1. reflexivity.
    - destruct (RedP_arr_fwd _ _ _ HR) as [[-> H0]|(ys & -> & El & Hc)]; [right; exists [], (SIdx n :: L); repeat split; exact H0|].
      destruct (nth_error_same_length ys xs n c (eq_sym El) Nn) as [y Ny].
      destruct (IH _ _ (wf_arr ys Hw n y Ny) (Hc n _ _ Nn Ny)) as [H|H].
      + left. econstructor; [rewrite <- El; exact Ni | exact Ny | exact H].
      + right. eapply marked_prefix_step; [|exact H]. intro R. cbn [RedactSpec.sub]. rewrite Ny. reflexivity.
    - destruct (RedP_arr_fwd _ _ _ HR) as [[-> H0]|(ys & -> & El & Hc)]; [right; exists [], (SIdx n :: L); repeat split; exact H0|].
      destruct (nth_error_same_length ys xs n c (eq_sym El) Nn) as [y Ny].
      destruct (IH _ _ (wf_arr ys Hw n y Ny) (Hc n _ _ Nn Ny)) as [H|H].
      + left. econstructor; [exact Ny | exact H].
      + right. eapply marked_prefix_step; [|exact H]. intro R. cbn [RedactSpec.sub]. rewrite Ny. reflexivity.
    - destruct (RedP_obj_fwd _ _ _ HR) as [[-> H0]|(kvs' & -> & Ek & Hc)]; [right; exists [], (SKey k :: L); repeat split; exact H0|].
      apply In_nth_error in Hin. destruct Hin as [n Nx].
      destruct (nth_error_same_length kvs' kvs n _ (eq_sym (map_fst_length _ _ Ek)) Nx) as [[k0 y] Ny].
      pose proof (map_fst_nth _ _ _ _ _ Ek Nx Ny) as Ef. cbn [fst] in Ef. subst k0.
      destruct (wf_obj_nth kvs' n _ Hw Ny) as [Wy Ly]. cbn [fst snd] in Wy, Ly.
      destruct (IH _ _ Wy (Hc n _ _ Nx Ny)) as [H|H].
      + left. econstructor; [exact (nth_error_In _ _ Ny) | exact H].
      + right. eapply marked_prefix_step; [|exact H]. intro R. cbn [RedactSpec.sub]. rewrite Ly. reflexivity.
    - destruct (IH _ _ Hw HR) as [H|H]; [left; apply D_desc_here, H | right; exact H].
    - destruct (RedP_arr_fwd _ _ _ HR) as [[-> H0]|(ys & -> & El & Hc)]; [right; exists [], (SIdx n :: L); repeat split; exact H0|].
      destruct (nth_error_same_length ys xs n c (eq_sym El) Nn) as [y Ny].
      destruct (IH _ _ (wf_arr ys Hw n y Ny) (Hc n _ _ Nn Ny)) as [H|H].
      + left. eapply D_desc_arr; [exact Ny | exact H].
      + right. eapply marked_prefix_step; [|exact H]. intro R. cbn [RedactSpec.sub]. rewrite Ny. reflexivity.
    - destruct (RedP_obj_fwd _ _ _ HR) as [[-> H0]|(kvs' & -> & Ek & Hc)]; [right; exists [], (SKey k :: L); repeat split; exact H0|].
      apply In_nth_error in Hin. destruct Hin as [n Nx].
      destruct (nth_error_same_length kvs' kvs n _ (eq_sym (map_fst_length _ _ Ek)) Nx) as [[k0 y] Ny].
      pose proof (map_fst_nth _ _ _ _ _ Ek Nx Ny) as Ef. cbn [fst] in Ef. subst k0.
      destruct (wf_obj_nth kvs' n _ Hw Ny) as [Wy Ly]. cbn [fst snd] in Wy, Ly.
      destruct (IH _ _ Wy (Hc n _ _ Nx Ny)) as [H|H].
      + left. eapply D_desc_obj; [exact (nth_error_In _ _ Ny) | exact H].
      + right. eapply marked_prefix_step; [|exact H]. intro R. cbn [RedactSpec.sub]. rewrite Ly. reflexivity.
  Qed.

End Red.

(* ------------------------------------------------------------------ arguments with json() hops *)
Section Args.
  Variable parse : bytes -> option jv.
  Variable render : jv -> bytes.
  Variable b64d : bytes -> option bytes.
  Variable b64e : bytes -> bytes.
  Variable xml_redact : bytes -> bytes -> option bytes.
  Hypothesis Hmark : decode parse b64d REDACTED = None.
  Hypothesis Hparse_render : forall v, parse (render v) = Some v.
  Hypothesis Hb64 : forall t, b64d (b64e t) = Some t.
  Hypothesis Hnot64 : forall v, is_container v = true -> b64d (render v) = None.
  Hypothesis Hparse_wf : forall t v, parse t = Some v -> wf v.

  Notation sub := (sub parse b64d).
  Notation decode := (decode parse b64d).
  Notation rrec := (redact_rec parse render b64d b64e xml_redact).
  Notation DArg := (DenotesArg parse b64d).
  Notation RedP := (RedP parse b64d).
  Notation marked_prefix := (marked_prefix parse b64d).

  Lemma decode_wf t i : decode t = Some i -> wf i.
  Proof. intro H. exact (Hparse_wf _ _ H). Qed.

  Lemma marked_prefix_app (P : loc -> Prop) v1 L X : marked_prefix P v1 L -> marked_prefix P v1 (L ++ X).
  Proof. intros (L0 & Lr & -> & H0 & S0). exists L0, (Lr ++ X). rewrite app_assoc. auto. Qed.

  Lemma RedP_darg_back ps v1 L : DArg ps v1 L -> forall (P : loc -> Prop) v, RedP P v v1 -> DArg ps v L.
  Proof.
    induction 1 as [p v1 L HD|p q rest v1 L1 t' inner' L2 HD S Dec _ IH]; intros P v HR.
    - constructor. eapply RedP_denotes_back; eassumption.
    - pose proof (RedP_denotes_back parse b64d _ _ _ HD _ _ HR) as HD0.
      destruct (RedP_sub_back parse b64d Hmark _ _ _ _ _ HR S) as (x & S0 & R0).
      destruct (RedP_str_back parse b64d _ _ _ R0) as [[-> _]|[->|(t & i & i'' & -> & Dt & Dt'' & _ & Hc)]].
      + rewrite Hmark in Dec. discriminate.
      + econstructor; [exact HD0 | exact S0 | exact Dec|]. exact (IH (fun _ => False) _ (RP_refl parse b64d _ _)).
      + rewrite Dec in Dt''. injection Dt'' as <-. econstructor; [exact HD0 | exact S0 | exact Dt|]. exact (IH _ _ Hc).
  Qed.

  Lemma RedP_darg_fwd ps v L : DArg ps v L -> forall (P : loc -> Prop) v1, wf v1 -> RedP P v v1 ->
    DArg ps v1 L \/ marked_prefix P v1 L.
  Proof.
    induction 1 as [p v L HD|p q rest v L1 t inner L2 HD S Dec _ IH]; intros P v1 Hw HR.
    - destruct (RedP_denotes_fwd parse b64d _ _ _ HD _ _ Hw HR) as [H|H]; [left; constructor; exact H | right; exact H].
    - destruct (RedP_denotes_fwd parse b64d _ _ _ HD _ _ Hw HR) as [HD1|H]; [|right; apply marked_prefix_app, H].
      destruct (RedP_sub_fwd parse b64d _ _ _ _ _ HR S) as [(x1 & S1 & R1)|H]; [|right; apply marked_prefix_app, H].
      assert (Hsub : forall i1 s1, x1 = JStr s1 -> decode s1 = Some i1 -> forall R, sub v1 (L1 ++ SHop :: R) = sub i1 R).
      { intros i1 s1 -> D1 R. rewrite sub_app, S1. cbn [RedactSpec.sub]. rewrite D1. reflexivity. }
      assert (Hlift : forall i1 s1, x1 = JStr s1 -> decode s1 = Some i1 ->
                      marked_prefix (fun R => P (L1 ++ SHop :: R)) i1 L2 -> marked_prefix P v1 (L1 ++ SHop :: L2)).
      { intros i1 s1 E1 D1 (L0 & Lr & -> & H0 & S0). exists (L1 ++ SHop :: L0), Lr.
        repeat split; [rewrite <- app_assoc; reflexivity | exact H0 | rewrite (Hsub _ _ E1 D1); exact S0]. }
      destruct (RedP_str_fwd parse b64d _ _ _ R1) as [[-> H0]|[->|(t' & i0 & i' & -> & Dt0 & Dt' & _ & Hc)]].
      + right. exists L1, (SHop :: L2). rewrite app_nil_r in H0. auto.
      + destruct (IH (fun R => P (L1 ++ SHop :: R)) inner (decode_wf _ _ Dec) (RP_refl parse b64d _ _)) as [H|H].
        * left. econstructor; eassumption.
        * right. eapply Hlift; [reflexivity | exact Dec | exact H].
      + rewrite Dec in Dt0. injection Dt0 as <-.
        destruct (IH (fun R => P (L1 ++ SHop :: R)) i' (decode_wf _ _ Dt') Hc) as [H|H].
        * left. econstructor; eassumption.
        * right. eapply Hlift; [reflexivity | exact Dt' | exact H].
  Qed.

  Lemma RedP_single ps v : SingleHops parse b64d ps v -> forall (P : loc -> Prop) v1, RedP P v v1 -> SingleHops parse b64d ps v1.
  Proof.
    induction 1 as [p v|p q rest v Huniq Hinner IH]; intros P v1 HR; constructor.
    - intros L L' H1 H2. apply Huniq; eapply RedP_denotes_back; eassumption.
    - intros L t' inner' HD S Dec.
      pose proof (RedP_denotes_back parse b64d _ _ _ HD _ _ HR) as HD0.
      destruct (RedP_sub_back parse b64d Hmark _ _ _ _ _ HR S) as (x & S0 & R0).
      destruct (RedP_str_back parse b64d _ _ _ R0) as [[-> _]|[->|(t & i & i'' & -> & Dt & Dt'' & _ & Hc)]].
      + rewrite Hmark in Dec. discriminate.
      + exact (Hinner L t' inner' HD0 S0 Dec).
      + rewrite Dec in Dt''. injection Dt'' as <-. exact (IH L t i HD0 S0 Dt _ _ Hc).
  Qed.

  (* ---------------------------------------------------------------- one argument is a redaction at its denoted locations *)
  Lemma rrec_RedP : forall a r r', ok_arg a -> wf r -> SingleHops parse b64d (map sjp a) r ->
    rrec r a = Some r' -> RedP (DArg (map sjp a) r) r r'.
  Proof.
    induction a as [|p a IH]; intros r r' Hok Hw Hs E.
    - cbn [redact_rec] in E. injection E as <-. apply RP_refl.
    - pose proof (Forall_inv Hok) as [Hx Hp]. pose proof (Forall_inv_tail Hok) as Hok'.
      cbn [redact_rec] in E. rewrite Hp, Hx in E. cbn [negb] in E.
      destruct (jmatches (sjp p) r) as [|[L1 r0] ms] eqn:J; [discriminate|].
      assert (Hin1 : In (L1, r0) (jmatches (sjp p) r)) by (rewrite J; left; reflexivity).
      pose proof (jm_sound _ _ _ _ Hin1) as HD1.
      destruct (jm_sub parse b64d _ _ _ _ Hw Hin1) as (S1 & W0 & F1).
      destruct a as [|q rest].
      + injection E as <-. cbn [map]. rewrite setm_mark. eapply RedP_mono; [apply mark_RedP|].
        intros L HL. constructor. apply in_matches_iff. exact HL.
      + cbn [map] in Hs |- *. inversion Hs as [|p0 q0 rest0 v0 Huniq Hinner]; subst.
        destruct r0 as [| | |s| |]; try discriminate.
        assert (X : exists inner inner' enc, decode s = Some inner /\ rrec inner (q :: rest) = Some inner'
                     /\ r' = setm (JStr enc) (sjp p) r /\ (is_container inner' = true -> decode enc = Some inner')).
        { unfold RedactSpec.decode. destruct (b64d s) as [t0|] eqn:B; cbn beta iota in E.
          - destruct (parse t0) as [inner|] eqn:Pq; [|discriminate].
            destruct (rrec inner (q :: rest)) as [inner'|] eqn:Ei; [|discriminate]. injection E as <-.
            exists inner, inner', (b64e (render inner')). split; [reflexivity|]. split; [exact Ei|]. split; [reflexivity|]. intros _. rewrite Hb64. apply Hparse_render.
          - destruct (parse s) as [inner|] eqn:Pq; [|discriminate].
            destruct (rrec inner (q :: rest)) as [inner'|] eqn:Ei; [|discriminate]. injection E as <-.
            exists inner, inner', (render inner'). split; [reflexivity|]. split; [exact Ei|]. split; [reflexivity|]. intros Ci. rewrite (Hnot64 _ Ci). apply Hparse_render. }
        clear E. destruct X as (inner & inner' & enc & Dec & Ei & -> & Dec').
        pose proof (Hinner L1 s inner HD1 S1 Dec) as Hsi.
        pose proof (rrec_spec parse render b64d b64e xml_redact Hmark Hparse_render Hb64 Hnot64 Hparse_wf
                      (q :: rest) inner (ltac:(discriminate)) Hok' (decode_wf _ _ Dec) Hsi) as Sp.
        rewrite Ei in Sp. destruct Sp as ((Lw & HLw) & _ & Ci' & _). specialize (Dec' Ci').
        assert (Eset : setm (JStr enc) (sjp p) r = set_at (JStr enc) L1 r).
        { unfold setm. apply fold_set_same; [|rewrite J; discriminate].
          intros [L c] Hin. cbn [fst]. apply Huniq; [eapply jm_sound, Hin | exact HD1]. }
        rewrite Eset.
        pose proof (IH inner inner' Hok' (decode_wf _ _ Dec) Hsi Ei) as HRi.
        eapply RedP_mono.
        * eapply (set_at_RedP parse b64d enc inner' _ Dec' (ex_intro _ Lw HLw) L1 r s inner Hw F1 S1 Dec HRi).
        * intros L (L2 & -> & H2). econstructor; eassumption.
  Qed.


  (* ---------------------------------------------------------------- every argument in turn *)
  Definition args_denote (args : list (list seg)) (v : jv) : loc -> Prop :=
    fun L => exists a, In a args /\ DArg (map sjp a) v L.

  (* the arguments the theorem covers, judged on the ORIGINAL record *)
  Definition good_arg (v : jv) (a : list seg) : Prop :=
    a <> [] /\ ok_arg a /\ SingleHops parse b64d (map sjp a) v.

  Notation rmodel := (redact_model parse render b64d b64e xml_redact).

  (* a marker stays, or something above it becomes one *)
  Lemma marker_persists (Q : loc -> Prop) acc r' L0 : RedP Q acc r' -> sub acc L0 = Some MARK ->
    exists L00 Lr, L0 = L00 ++ Lr /\ (Lr = [] \/ Q L00) /\ sub r' L00 = Some MARK.
  Proof.
    intros HR S0. destruct (RedP_sub_fwd parse b64d _ _ _ _ _ HR S0) as [(x1 & S1 & R1)|(L00 & Lr & -> & H0 & S00)].
    - rewrite (RedP_from_mark parse b64d Hmark _ _ R1) in S1. exists L0, []. rewrite app_nil_r. auto.
    - exists L00, Lr. auto.
  Qed.

  Lemma model_inv v : wf v -> forall args (Dd : loc -> Prop) acc,
    (forall a, In a args -> good_arg v a) ->
    RedP Dd v acc -> marker_at_denoted parse b64d Dd acc ->
    RedP (fun L => Dd L \/ args_denote args v L) v (rmodel acc args)
    /\ marker_at_denoted parse b64d (fun L => Dd L \/ args_denote args v L) (rmodel acc args).
  Proof.
    intro Hw. induction args as [|a rest IH]; intros Dd acc Hgood HR HM.
    - cbn [redact_model fold_left]. split.
      + eapply RedP_mono; [exact HR|]. intros L HL. left. exact HL.
      + intros L [HL|(a & [] & _)]. destruct (HM L HL) as (L0 & Lr & E & D0 & S0). exists L0, Lr. auto.
    - destruct (Hgood a (or_introl eq_refl)) as (Hne & Hok & Hs0).
      pose proof (RedP_wf parse b64d _ _ _ HR Hw) as Hwacc.
      pose proof (RedP_single _ _ Hs0 _ _ HR) as Hs.
      set (Dd1 := fun L => Dd L \/ DArg (map sjp a) v L).
      set (acc1 := match rrec acc a with Some o' => o' | None => acc end).
      assert (Hback : forall L, DArg (map sjp a) acc L -> DArg (map sjp a) v L).
      { intros L H. exact (RedP_darg_back _ _ _ H _ _ HR). }
      assert (Step : RedP Dd1 v acc1 /\ marker_at_denoted parse b64d Dd1 acc1).
      { pose proof (rrec_spec parse render b64d b64e xml_redact Hmark Hparse_render Hb64 Hnot64 Hparse_wf
                      a acc Hne Hok Hwacc Hs) as Sp.
        unfold acc1. destruct (rrec acc a) as [r'|] eqn:E.
        - destruct Sp as (_ & _ & _ & C1 & _).
          pose proof (rrec_RedP a acc r' Hok Hwacc Hs E) as HR'.
          assert (Hpers : forall L0, Dd L0 -> sub acc L0 = Some MARK ->
                          exists L00 Lr, L0 = L00 ++ Lr /\ Dd1 L00 /\ sub r' L00 = Some MARK).
          { intros L0 D0 S0. destruct (marker_persists _ _ _ _ HR' S0) as (L00 & Lr & -> & [->|Q0] & S00);
              exists L00; [exists []|exists Lr]; repeat split; try exact S00.
            - left. rewrite app_nil_r in D0. exact D0.
            - right. apply Hback, Q0. }
          split.
          + eapply RedP_mono; [exact (RedP_trans parse b64d Hmark _ _ _ HR _ _ HR')|].
            intros L [HL|HL]; [left; exact HL | right; apply Hback, HL].
          + assert (Hold : forall L, marked_prefix Dd acc L -> exists L0 Lr, L = L0 ++ Lr /\ Dd1 L0 /\ sub r' L0 = Some MARK).
            { intros L (L0 & Lr & -> & D0 & S0). destruct (Hpers L0 D0 S0) as (L00 & Lr' & -> & D00 & S00).
              exists L00, (Lr' ++ Lr). rewrite app_assoc. auto. }
            intros L [HL|HL]; [apply Hold, HM, HL|].
            destruct (RedP_darg_fwd _ _ _ HL _ _ Hwacc HR) as [H|H]; [|apply Hold, H].
            destruct (C1 L H) as (L0 & Lr & -> & E0 & S0). exists L0, Lr. repeat split; [right; apply Hback, E0 | exact S0].
        - split.
          + eapply RedP_mono; [exact HR|]. intros L HL. left. exact HL.
          + assert (Hold : forall L, marked_prefix Dd acc L -> exists L0 Lr, L = L0 ++ Lr /\ Dd1 L0 /\ sub acc L0 = Some MARK).
            { intros L (L0 & Lr & -> & D0 & S0). exists L0, Lr. repeat split; [left; exact D0 | exact S0]. }
            intros L [HL|HL]; [apply Hold, HM, HL|].
            destruct (RedP_darg_fwd _ _ _ HL _ _ Hwacc HR) as [H|H]; [exfalso; exact (Sp L H) | apply Hold, H]. }
      destruct Step as [HR1 HM1].
      assert (Hgood' : forall a0, In a0 rest -> good_arg v a0) by (intros a0 H0; apply Hgood; right; exact H0).
      destruct (IH Dd1 acc1 Hgood' HR1 HM1) as [HRr HMr].
      assert (Ext : forall L, (Dd1 L \/ args_denote rest v L) <-> (Dd L \/ args_denote (a :: rest) v L)).
      { intro L. unfold Dd1, args_denote. split.
        - intros [[H|H]|(a0 & Hin & H)]; [left; exact H | right; exists a; split; [left; reflexivity | exact H]
                                           | right; exists a0; split; [right; exact Hin | exact H]].
        - intros [H|(a0 & [<-|Hin] & H)]; [left; left; exact H | left; right; exact H | right; exists a0; auto]. }
      change (rmodel acc (a :: rest)) with (rmodel acc1 rest). split.
      + eapply RedP_mono; [exact HRr|]. intros L HL. apply Ext, HL.
      + intros L HL. destruct (HMr L (proj2 (Ext L) HL)) as (L0 & Lr & E0 & D0 & S0).
        exists L0, Lr. repeat split; [exact E0 | apply Ext, D0 | exact S0].
  Qed.

  (* a redaction at the locations of D with a marker above every location of D: the four clauses *)
  Lemma RedP_clauses (D : loc -> Prop) v r : RedP D v r -> marker_at_denoted parse b64d D r -> clauses parse b64d D v r.
  Proof.
    intros HR HM. split; [exact HM|]. split; [|split].
    - intros L x S Hd. exact (RedP_frame parse b64d _ _ _ _ _ HR S Hd).
    - intros L x S U. destruct (RedP_sub_back parse b64d Hmark _ _ _ _ _ HR S) as (x0 & S0 & R0).
      destruct (RedP_uleaf parse b64d _ _ _ R0 U) as [->| ->]; [left; reflexivity | right; exact S0].
    - intros L S. destruct (sub r L) as [x|] eqn:Sx; [|congruence].
      destruct (RedP_sub_back parse b64d Hmark _ _ _ _ _ HR Sx) as (x0 & S0 & _). congruence.
  Qed.

  Theorem several_arguments_clauses args v : wf v -> (forall a, In a args -> good_arg v a) ->
    clauses parse b64d (args_denote args v) v (rmodel v args).
  Proof.
    intros Hw Hgood.
    destruct (model_inv v Hw args (fun _ => False) v Hgood (RP_refl parse b64d _ _)) as [HR HM].
    { intros L []. }
    apply RedP_clauses.
    - eapply RedP_mono; [exact HR|]. intros L [[]|HL]. exact HL.
    - intros L HL. destruct (HM L (or_intror HL)) as (L0 & Lr & E0 & [[]|D0] & S0). exists L0, Lr. auto.
  Qed.

  Lemma good_arg_red (P : loc -> Prop) v v1 a : RedP P v v1 -> good_arg v a -> good_arg v1 a.
  Proof. intros HR (Hne & Hok & Hs). repeat split; try assumption. exact (RedP_single _ _ Hs _ _ HR). Qed.
End Args.

(* the same arguments in any order: the clauses hold for the same locations *)
Section ArgsOrder.
  Variable parse : bytes -> option jv.
  Variable render : jv -> bytes.
  Variable b64d : bytes -> option bytes.
  Variable b64e : bytes -> bytes.
  Variable xml_redact : bytes -> bytes -> option bytes.
  Hypothesis Hmark : decode parse b64d REDACTED = None.
  Hypothesis Hparse_render : forall v, parse (render v) = Some v.
  Hypothesis Hb64 : forall t, b64d (b64e t) = Some t.
  Hypothesis Hnot64 : forall v, is_container v = true -> b64d (render v) = None.
  Hypothesis Hparse_wf : forall t v, parse t = Some v -> wf v.

  Corollary several_arguments_any_order args args' v : wf v -> Permutation args args' ->
    (forall a, In a args -> good_arg parse b64d v a) ->
    clauses parse b64d (args_denote parse b64d args v) v (redact_model parse render b64d b64e xml_redact v args').
  Proof.
    intros Hw HP Hgood.
    apply (clauses_ext parse b64d (args_denote parse b64d args' v)).
    - intro L. unfold args_denote. split; intros (a & Hin & H); exists a; (split; [|exact H]).
      + eapply Permutation_in; [apply Permutation_sym|]; eassumption.
      + eapply Permutation_in; eassumption.
    - apply several_arguments_clauses; try assumption.
      intros a Hin. apply Hgood. eapply Permutation_in; [apply Permutation_sym|]; eassumption.
  Qed.
End ArgsOrder.
