(* The theorems of MacroProofs.v instantiated with the macro table generated from the source
   (gen/Macros.v, rewritten by vh-translate on every run).  The side conditions are decided by
   computation on that table. *)
Require Import V.Base.Prelude V.KflText.Macro V.KflText.MacroProofs V.gen.Macros.
From Coq Require Import Permutation.
Local Open Scope bool_scope.

(* kfl's global table: AddMacro applied to every (name, definition) of every extension *)
Definition T : list macro := table_of raw_macros.

Lemma T_ok : table_ok T = true.
Proof. vm_compute. reflexivity. Qed.

Lemma order_indep q o1 o2 : Permutation o1 T -> Permutation o2 T -> expand_macros o1 q = expand_macros o2 q.
Proof. intros H1 H2. rewrite !(expand_macros_order T T_ok) by assumption. reflexivity. Qed.

Lemma idem q o : Permutation o T -> expand_macros o (expand_macros o q) = expand_macros o q.
Proof.
  intro H. rewrite !(expand_macros_order T T_ok) by assumption. apply (expand_idem T T_ok). apply incl_refl.
Qed.

Lemma literals o : Permutation o T -> forall segs last,
  Forall (fun sl => plain (fst sl) = true /\ stays_in Str (snd sl) = true) segs -> plain last = true ->
  expand_macros o (assemble (fun x => x) segs last) = assemble (expand_macros o) segs last.
Proof.
  intros H segs last F Hl. rewrite (expand_macros_order T T_ok) by assumption.
  rewrite (expand_assemble T T_ok T (incl_refl T)) by assumption.
  clear F. induction segs as [|[out lit] segs IH]; cbn [assemble].
  - rewrite (expand_macros_order T T_ok) by assumption. reflexivity.
  - rewrite IH, (expand_macros_order T T_ok o H out). reflexivity.
Qed.

Lemma standalone o : Permutation o T -> forall w r,
  w <> [] -> Forall (fun b => is_blocker b = true) w -> next_free r = true ->
  expand_macros o (w ++ r) =
  (if suffix_ok r then match find_macro w T with Some d => d | None => w end else w) ++ expand_macros o r.
Proof.
  intros H w r Hw Hf Hr. rewrite !(expand_macros_order T T_ok) by assumption.
  apply (expand_run T T_ok T); [apply incl_refl | assumption..].
Qed.

Lemma other_bytes o : Permutation o T -> forall b r, is_blocker b = false ->
  expand_macros o (b :: r) = b :: expand_macros o r.
Proof.
  intros H b r Hb. rewrite !(expand_macros_order T T_ok) by assumption.
  apply (expand_sep T T_ok T); [apply incl_refl | assumption].
Qed.

(* the hypotheses are satisfiable and the conclusion is not vacuous:
     http and x == "http" and request.httpVersion  *)
Definition sample : bytes :=
  bs [104;116;116;112;32;97;110;100;32;120;32;61;61;32;34;104;116;116;112;34;32;97;110;100;32;
      114;101;113;117;101;115;116;46;104;116;116;112;86;101;114;115;105;111;110]%N.
Definition sample_expanded : bytes :=
  bs [40;112;114;111;116;111;99;111;108;46;97;98;98;114;32;61;61;32;34;72;84;84;80;34;41;
      32;97;110;100;32;120;32;61;61;32;34;104;116;116;112;34;32;97;110;100;32;
      114;101;113;117;101;115;116;46;104;116;116;112;86;101;114;115;105;111;110]%N.
Lemma sample_ok : expand_macros T sample = sample_expanded /\ expand_macros (rev T) sample = sample_expanded.
Proof. vm_compute. split; reflexivity. Qed.

(* the side conditions matter: with a definition that mentions another macro as a standalone
   identifier (web := http or http2) the table is rejected and expansion is not idempotent *)
Definition bad_table : list macro :=
  table_of [(bs [104;116;116;112]%N, bs [120;32;61;61;32;49]%N);                               (* http := x == 1 *)
            (bs [119;101;98]%N, bs [104;116;116;112;32;111;114;32;104;116;116;112;50]%N)].     (* web := http or http2 *)
Lemma side_condition_needed :
  table_ok bad_table = false /\
  expand_macros bad_table (expand_macros bad_table (bs [119;101;98]%N)) <> expand_macros bad_table (bs [119;101;98]%N).
Proof. split; [vm_compute; reflexivity | vm_compute; discriminate]. Qed.

(* raw-string (and char) literals are strings of the KFL grammar but not of this algorithm:
   the full statement "the content of every string literal is unchanged" is false of the model,
   witness  `http`  (recorded finding C17-raw-char-literal) *)
Definition raw_witness : bytes := bs [96;104;116;116;112;96]%N.
Lemma rawstring_refuted : expand_macros T raw_witness <> raw_witness.
Proof. vm_compute. discriminate. Qed.
