(* Model of kfl.ExpandMacros / kfl.AddMacro (pkg/languages/kfl/macro.go) after the repairs
   97e33fc (identifier boundaries) and e5c6676 (escape-aware look-ahead).

   Query text is a list of bytes.  For every macro (name, definition) the Go code runs (writing
   Q for the double quote character)

       regexp2  (?<![\w.])(NAME)(?![\w.])(?=(?:[^Q\\]|\\.|Q(?:[^Q\\]|\\.)*Q)*$)     (Singleline)
       query = regex.Replace(query, definition, -1, -1)

   over the table sorted by descending name length (ties in Go-map order, i.e. any order).
   The regular expression is modelled directly as a scanner:
     - look-behind / look-ahead [\w.]  : [is_blocker] of the byte before / after the name;
     - the (?=...$) look-ahead          : the text after the name is accepted by the four-state
       automaton [lstep] started outside a literal ([suffix_ok]); the dollar also matches before
       a final newline, which accepts the same texts because [^Q\\] matches a newline;
     - Replace(-1,-1)                   : leftmost matches, scanning resumes after a match,
       the look-behind sees the ORIGINAL text.
   Modelled, not verified: regexp2 itself; \w on non-ASCII runes (every byte >= 0x80 is taken to
   be a word character, which is what regexp2 does for letters; the correspondence check uses
   ASCII texts and letters); dollar substitutions in a definition (no definition contains one).
   No proofs in this file. *)
Require Import V.Base.Prelude.
Local Open Scope bool_scope.
Local Open Scope N_scope.

Definition QUOTE : byte := x22.   (* double quote *)
Definition BSLASH : byte := x5c.  (* backslash *)
Definition DOT : byte := x2e.     (* . *)
Definition LPAR : byte := x28.    (* ( *)
Definition RPAR : byte := x29.    (* ) *)

Definition bytes_eqb : bytes -> bytes -> bool := list_eqb Byte.eqb.

(* \w : [0-9A-Za-z_] and every non-ASCII byte *)
Definition is_word (b : byte) : bool :=
  let n := b2n b in
  ((48 <=? n) && (n <=? 57)) || ((65 <=? n) && (n <=? 90)) || ((97 <=? n) && (n <=? 122))
  || (n =? 95) || (128 <=? n).

(* [\w.] : the bytes that may not touch a macro name *)
Definition is_blocker (b : byte) : bool := is_word b || Byte.eqb b DOT.

(* ---- the look-ahead as an automaton ---- *)
Inductive lst := Out | OutEsc | Str | StrEsc.

Definition lstep (s : lst) (b : byte) : lst :=
  match s with
  | Out => if Byte.eqb b QUOTE then Str else if Byte.eqb b BSLASH then OutEsc else Out
  | OutEsc => Out
  | Str => if Byte.eqb b QUOTE then Out else if Byte.eqb b BSLASH then StrEsc else Str
  | StrEsc => Str
  end.

Definition lrun (s : lst) (q : bytes) : lst := fold_left lstep q s.

Definition lst_eqb (a b : lst) : bool :=
  match a, b with Out, Out | OutEsc, OutEsc | Str, Str | StrEsc, StrEsc => true | _, _ => false end.

Definition suffix_ok (q : bytes) : bool := lst_eqb (lrun Out q) Out.

(* ---- one Replace pass for one macro ---- *)
Fixpoint strip_prefix (n q : bytes) : option bytes :=
  match n with
  | [] => Some q
  | a :: n' => match q with
               | b :: q' => if Byte.eqb a b then strip_prefix n' q' else None
               | [] => None
               end
  end.

(* (?![\w.]) at the head of the remaining text *)
Definition next_free (q : bytes) : bool :=
  match q with [] => true | b :: _ => negb (is_blocker b) end.

(* does NAME(?![\w.])(?=...) match at the head of q?  (an empty name is not a macro) *)
Definition match_here (n q : bytes) : bool :=
  match n with
  | [] => false
  | _ => match strip_prefix n q with
         | Some rest => next_free rest && suffix_ok rest
         | None => false
         end
  end.

(* skip: bytes of a matched name still to be dropped; prevb: the previous byte of the original
   text is in [\w.] (look-behind) *)
Fixpoint pass (n d : bytes) (skip : nat) (prevb : bool) (q : bytes) : bytes :=
  match q with
  | [] => []
  | b :: r =>
      match skip with
      | S k => pass n d k (is_blocker b) r
      | O => if negb prevb && match_here n q
             then d ++ pass n d (Nat.pred (length n)) (is_blocker b) r
             else b :: pass n d O (is_blocker b) r
      end
  end.

Definition macro := (bytes * bytes)%type.

Definition expand1 (m : macro) (q : bytes) : bytes := pass (fst m) (snd m) O false q.

(* the loop over the (sorted) table *)
Definition expand (o : list macro) (q : bytes) : bytes := fold_left (fun q m => expand1 m q) o q.

(* AddMacro: macros[name] = "(" + definition + ")" *)
Definition add_macro (m : macro) : macro := (fst m, LPAR :: snd m ++ [RPAR]).
Definition table_of (raw : list macro) : list macro := map add_macro raw.

(* sort.Slice(len(a.Macro) > len(b.Macro)): any sort; here insertion sort on the map order *)
Fixpoint insert_by_len (m : macro) (l : list macro) : list macro :=
  match l with
  | [] => [m]
  | x :: l' => if (length (fst x) <? length (fst m))%nat then m :: l else x :: insert_by_len m l'
  end.
Definition sort_by_len (l : list macro) : list macro := fold_right insert_by_len [] l.

(* ExpandMacros with the map iterated in order map_order *)
Definition expand_macros (map_order : list macro) (q : bytes) : bytes :=
  expand (sort_by_len map_order) q.

(* ---- side conditions on a macro table (decided by vm_compute on the generated table) ---- *)
Definition all_lst : list lst := [Out; OutEsc; Str; StrEsc].

Definition name_ok (n : bytes) : bool :=
  match n with [] => false | _ => forallb is_word n end.

Definition no_bslash (d : bytes) : bool := forallb (fun b => negb (Byte.eqb b BSLASH)) d.

Fixpoint last_free (d : bytes) : bool :=
  match d with
  | [] => false
  | [b] => negb (is_blocker b)
  | _ :: r => last_free r
  end.

Definition head_free (d : bytes) : bool :=
  match d with [] => false | b :: _ => negb (is_blocker b) end.

(* the definition acts on the look-ahead automaton exactly as the name does *)
Definition neutral (n d : bytes) : bool :=
  forallb (fun s => lst_eqb (lrun s d) (lrun s n)) all_lst.

(* no position of t is a free-standing occurrence of n outside a literal of t; an occurrence
   inside a literal of t must be followed, within t, by the closing quote *)
Fixpoint inert (n : bytes) (prevb : bool) (t : bytes) : bool :=
  match t with
  | [] => true
  | b :: r =>
      (if prevb then true
       else match strip_prefix n t with
            | Some rest => if next_free rest
                           then match rest with [] => false | _ => lst_eqb (lrun Out rest) Str end
                           else true
            | None => true
            end)
      && inert n (is_blocker b) r
  end.

Fixpoint nodup_names (l : list macro) : bool :=
  match l with
  | [] => true
  | m :: l' => negb (existsb (fun m' => bytes_eqb (fst m) (fst m')) l') && nodup_names l'
  end.

Definition macro_ok (m : macro) : bool :=
  name_ok (fst m) && no_bslash (snd m) && head_free (snd m) && last_free (snd m)
  && neutral (fst m) (snd m).

Definition table_ok (T : list macro) : bool :=
  nodup_names T && forallb macro_ok T
  && forallb (fun m => forallb (fun m' => inert (fst m) false (snd m')) T) T.

(* first definition registered under a name *)
Fixpoint find_macro (w : bytes) (o : list macro) : option bytes :=
  match o with
  | [] => None
  | m :: o' => if bytes_eqb w (fst m) then Some (snd m) else find_macro w o'
  end.
