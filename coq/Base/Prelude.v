(* Common imports and small helpers shared by every model file.  Stdlib only. *)
From Coq Require Export List Bool Arith NArith ZArith Lia.
From Coq Require Export ZifyBool ZifyNat ZifyN.
From Coq.Strings Require Export Byte.
Export ListNotations.

Definition byte := Byte.byte.
Definition bytes := list byte.

(* bytes written by the harness as numerals *)
Definition b_of_N (n : N) : byte :=
  match Byte.of_N n with Some b => b | None => Byte.x00 end.
Definition bs (l : list N) : bytes := map b_of_N l.
Definition b2n (b : byte) : N := Byte.to_N b.
Definition b2z (b : byte) : Z := Z.of_N (Byte.to_N b).

Definition sumZ (l : list Z) : Z := fold_right Z.add 0%Z l.

Lemma sumZ_app l1 l2 : sumZ (l1 ++ l2) = (sumZ l1 + sumZ l2)%Z.
Proof. induction l1 as [|x xs IH]; cbn [sumZ fold_right app]; [reflexivity|]. fold (sumZ (xs ++ l2)). fold (sumZ xs). rewrite IH. lia. Qed.

(* outcome of a modelled Go function *)
Inductive errclass := EEOF | EUnexpectedEOF | EProto | EIO.
Inductive res (A : Type) :=
| Ok (a : A)
| Err (e : errclass)
| Panic (site : nat)
| OutOfFuel.
Arguments Ok {A} a.
Arguments Err {A} e.
Arguments Panic {A} site.
Arguments OutOfFuel {A}.

Definition bind {A B} (r : res A) (f : A -> res B) : res B :=
  match r with
  | Ok a => f a
  | Err e => Err e
  | Panic s => Panic s
  | OutOfFuel => OutOfFuel
  end.
Notation "'let*' x ':=' r 'in' k" := (bind r (fun x => k)) (at level 200, x pattern, r at level 100, k at level 200).

(* indices of the cases on which two lists differ (used by every correspondence file) *)
Fixpoint mismatches_from {A} (eqb : A -> A -> bool) (i : nat) (xs ys : list A) : list nat :=
  match xs, ys with
  | [], [] => []
  | x :: xs', y :: ys' => (if eqb x y then [] else [i]) ++ mismatches_from eqb (S i) xs' ys'
  | _, _ => [i]
  end.
Definition mismatches {A} (eqb : A -> A -> bool) := mismatches_from eqb 0 (A:=A).

Definition list_eqb {A} (eqb : A -> A -> bool) : list A -> list A -> bool :=
  fix go xs ys := match xs, ys with
                  | [], [] => true
                  | x :: xs', y :: ys' => eqb x y && go xs' ys'
                  | _, _ => false
                  end.
Definition option_eqb {A} (eqb : A -> A -> bool) (x y : option A) : bool :=
  match x, y with Some a, Some b => eqb a b | None, None => true | _, _ => false end.

(* indices of the cases on which a boolean check fails *)
Fixpoint failing_from {A} (f : A -> bool) (i : nat) (l : list A) : list nat :=
  match l with
  | [] => []
  | x :: l' => (if f x then [] else [i]) ++ failing_from f (S i) l'
  end.
Definition failing {A} (f : A -> bool) (l : list A) : list nat := failing_from f 0 l.
