package main

// Expressions of the stage functions: tracked expressions (-> expr of Access.v) and the effects
// (assertions on tracked values, inlined helper calls) of untracked ones, in evaluation order.

import (
	"go/ast"
	"go/token"
	"strconv"
	"strings"
)

// an effect of evaluating something: SEval e, SLet x e <rest>, or a closed block
type eff struct {
	kind int // 0 eval, 1 let, 2 block
	x    string
	e    *cexpr
	s    *cstmt
}

func seqEffs(effs []eff, k func() *cstmt) *cstmt {
	if len(effs) == 0 {
		return k()
	}
	rest := func() *cstmt { return seqEffs(effs[1:], k) }
	switch effs[0].kind {
	case 0:
		return seq(&cstmt{op: "eval", e: effs[0].e}, rest())
	case 1:
		return &cstmt{op: "let", x: effs[0].x, e: effs[0].e, a: rest()}
	default:
		return seq(effs[0].s, rest())
	}
}

func skipK() *cstmt { return sSkip }

// tracked translates e when it denotes a tracked value.
func (t *tr) tracked(e ast.Expr, sc *scope) (tval, bool) {
	switch e := e.(type) {
	case *ast.ParenExpr:
		return t.tracked(e.X, sc)
	case *ast.Ident:
		b := sc.lookup(e.Name)
		if b == nil || b.kind != bTracked {
			return tval{}, false
		}
		return tval{e: eVar(b.coq), st: b.st, ojg: b.ojg, root: b.root, from: b, stale: b.stale}, true
	case *ast.SelectorExpr:
		id, ok := e.X.(*ast.Ident)
		if !ok {
			return tval{}, false
		}
		b := sc.lookup(id.Name)
		if b == nil || b.kind != bEntry {
			return tval{}, false
		}
		switch e.Sel.Name {
		case "Request":
			return tval{e: eVar("request"), st: stMap, root: 1}, true
		case "Response":
			return tval{e: eVar("response"), st: stMap, root: 2}, true
		}
		return tval{}, false
	case *ast.IndexExpr:
		x, ok := t.tracked(e.X, sc)
		if !ok {
			return tval{}, false
		}
		switch x.st {
		case stMap:
			k, ok := t.strLit(e.Index, sc)
			if !ok {
				// m[key] inside a loop over the collected keys of m
				if xi, ok := unparen(e.X).(*ast.Ident); ok {
					if ki, ok := unparen(e.Index).(*ast.Ident); ok {
						if b := sc.lookup(xi.Name + "[" + ki.Name + "]"); b != nil && b.kind == bTracked && b.parent == x.from {
							return tval{e: eVar(b.coq), st: b.st, ojg: b.ojg, root: b.root, from: b, stale: b.stale}, true
						}
					}
				}
				t.refuse(e, "index of a tracked map with a key that is not a string constant")
			}
			if !printableASCII(k) {
				t.refuse(e, "key literal with non-printable characters")
			}
			t.use(e, x)
			return tval{e: &cexpr{op: "field", e: x.e, k: k}, st: stIface, ojg: x.ojg, root: x.root, from: x.from}, true
		case stSlice:
			// x[0] under "if len(x) > 0"
			if id, ok := unparen(e.X).(*ast.Ident); ok {
				if z, ok := t.intLit(e.Index, sc); ok && z == 0 {
					if b := sc.lookup(id.Name + "[0]"); b != nil && b.kind == bTracked && b.parent == x.from {
						return tval{e: eVar(b.coq), st: b.st, ojg: b.ojg, root: b.root, from: b, stale: b.stale}, true
					}
				}
			}
			if z, ok := t.intLit(e.Index, sc); ok && z >= 0 && z < 1000 {
				t.use(e, x)
				return tval{e: &cexpr{op: "idx", site: t.site(e), e: x.e, n: int(z)}, st: stIface, ojg: x.ojg, root: x.root, from: x.from}, true
			}
			t.refuse(e, "index of a tracked slice with an index that is not a constant")
		default:
			t.refuse(e, "index of a tracked value that is neither a map nor a slice")
		}
	case *ast.TypeAssertExpr:
		if e.Type == nil {
			return tval{}, false
		}
		x, ok := t.tracked(e.X, sc)
		if !ok {
			return tval{}, false
		}
		ty, st, ok := tyOfTypeExpr(t.p.fset, e.Type)
		if !ok {
			t.refuse(e, "assertion of a tracked value to %s (not a type encoding/json produces)", exprString(t.p.fset, e.Type))
		}
		if x.st != stIface {
			t.refuse(e, "assertion on a tracked value that is not an interface{}")
		}
		if x.ojg && ty == "TyNum" {
			t.refuse(e, "float64 assertion on a value parsed by ojg (integers are int64 there)")
		}
		t.use(e, x)
		return tval{e: &cexpr{op: "as", site: t.site(e), e: x.e, t: ty}, st: st, ojg: x.ojg, root: x.root, from: x.from}, true
	case *ast.CallExpr:
		return t.trackedCall(e, sc)
	}
	return tval{}, false
}

func (t *tr) asOk(n ast.Node, x tval, ty string, st int) tval {
	if x.st != stIface {
		t.refuse(n, "comma-ok assertion on a tracked value that is not an interface{}")
	}
	if x.ojg && ty == "TyNum" {
		t.refuse(n, "float64 assertion on a value parsed by ojg (integers are int64 there)")
	}
	t.use(n, x)
	return tval{e: &cexpr{op: "asok", e: x.e, t: ty}, st: st, ojg: x.ojg, root: x.root, from: x.from}
}

func (t *tr) trackedCall(e *ast.CallExpr, sc *scope) (tval, bool) {
	switch f := e.Fun.(type) {
	case *ast.Ident:
		if sc.lookup(f.Name) != nil || len(e.Args) != 1 {
			return tval{}, false
		}
		if f.Name == "asSlice" {
			if fd := t.p.funcs["asSlice"]; fd != nil {
				x, ok := t.tracked(e.Args[0], sc)
				if !ok {
					return tval{}, false
				}
				if !t.isAsSlice(fd) {
					t.refuse(e, "asSlice is not `if s, ok := v.([]interface{}); ok { return s }; return nil` any more")
				}
				if x.st != stIface {
					// a []interface{} passed to an interface{} parameter
					if x.st == stSlice {
						return x, true
					}
					t.refuse(e, "asSlice of a tracked value that is not an interface{}")
				}
				return t.asOk(e, x, "TyArr", stSlice), true
			}
		}
		// conversions T(x)
		if numericTypes[f.Name] || (t.p.types[f.Name] && f.Name != "string") {
			x, ok := t.tracked(e.Args[0], sc)
			if !ok {
				return tval{}, false
			}
			if x.st != stNum {
				if t.p.types[f.Name] && !numericTypes[f.Name] && x.st == stStr {
					return x, true // a named string type
				}
				t.refuse(e, "conversion of a tracked value that is not a number")
			}
			return x, true
		}
		if f.Name == "string" {
			x, ok := t.tracked(e.Args[0], sc)
			if !ok {
				return tval{}, false
			}
			if x.st != stJSON && x.st != stStr {
				t.refuse(e, "string() of a tracked value that is neither JSON text nor a string")
			}
			return x, true
		}
	case *ast.SelectorExpr:
		// path.Get(obj)
		id, ok := f.X.(*ast.Ident)
		if !ok || f.Sel.Name != "Get" || len(e.Args) != 1 {
			return tval{}, false
		}
		b := sc.lookup(id.Name)
		if b == nil || b.kind != bPath {
			return tval{}, false
		}
		x, ok := t.tracked(e.Args[0], sc)
		if !ok {
			t.refuse(e, "jp path applied to an untracked value")
		}
		t.use(e, x)
		return tval{e: &cexpr{op: "path", e: x.e, ks: b.path}, st: stSlice, ojg: x.ojg, root: x.root, from: x.from}, true
	}
	return tval{}, false
}

// reflect.TypeOf(x) of a tracked interface{} variable, or a name bound to it
func (t *tr) typeOfExpr(e ast.Expr, sc *scope) (*binding, bool) {
	e = unparen(e)
	if id, ok := e.(*ast.Ident); ok {
		if b := sc.lookup(id.Name); b != nil && b.kind == bTypeOf {
			return b, true
		}
		return nil, false
	}
	c, ok := t.isPkgCall(e, sc, "reflect", "TypeOf")
	if !ok || len(c.Args) != 1 {
		return nil, false
	}
	x, ok := t.tracked(c.Args[0], sc)
	if !ok {
		return nil, false
	}
	if x.st != stIface || x.e.op != "var" || x.from == nil {
		t.refuse(e, "reflect.TypeOf of a tracked value that is not an interface{} variable")
	}
	t.use(e, x)
	name := ""
	if id, ok := unparen(c.Args[0]).(*ast.Ident); ok {
		name = id.Name
	}
	return &binding{kind: bTypeOf, symVar: x.e.x, symOjg: x.ojg, symFrom: x.from, symName: name}, true
}

// a reflect.Kind the translator can follow: reflect.<Kind>, T.Kind() for T as above (only where
// the variable is known not to be nil: Kind() on a nil Type is a nil dereference), or a name bound to one
func (t *tr) kindExpr(e ast.Expr, sc *scope) (*binding, bool) {
	e = unparen(e)
	switch e := e.(type) {
	case *ast.Ident:
		if b := sc.lookup(e.Name); b != nil && b.kind == bKind {
			return b, true
		}
	case *ast.SelectorExpr:
		if id, ok := e.X.(*ast.Ident); ok && id.Name == "reflect" && sc.lookup("reflect") == nil {
			if _, ok := reflectKinds[e.Sel.Name]; ok {
				return &binding{kind: bKind, kconst: e.Sel.Name}, true
			}
		}
	case *ast.CallExpr:
		sel, ok := e.Fun.(*ast.SelectorExpr)
		if !ok || sel.Sel.Name != "Kind" || len(e.Args) != 0 {
			return nil, false
		}
		tb, ok := t.typeOfExpr(sel.X, sc)
		if !ok {
			return nil, false
		}
		if sc.lookup("nonnil:"+tb.symVar) == nil {
			t.refuse(e, "reflect.TypeOf(x).Kind() where x may be nil")
		}
		return &binding{kind: bKind, symVar: tb.symVar, symOjg: tb.symOjg, symFrom: tb.symFrom, symName: tb.symName}, true
	}
	return nil, false
}

// isAsSlice: func asSlice(v interface{}) []interface{} { if s, ok := v.([]interface{}); ok { return s }; return nil }
func (t *tr) isAsSlice(fd *ast.FuncDecl) bool {
	src := strings.Join(strings.Fields(exprString(t.p.fset, fd.Body)), " ")
	return src == "{ if s, ok := v.([]interface{}); ok { return s } return nil }"
}

// effects of evaluating an expression whose value is not tracked
func (t *tr) effects(e ast.Expr, sc *scope) []eff {
	if e == nil {
		return nil
	}
	switch e.(type) {
	case *ast.Ident, *ast.BasicLit:
		return nil
	}
	if id, ok := unparen(e).(*ast.Ident); ok && id != nil {
		return nil
	}
	if sel, ok := e.(*ast.SelectorExpr); ok {
		if _, ok := sel.X.(*ast.Ident); ok {
			return nil // entry.Request, pkg.Name, x.Field: a plain read
		}
	}
	if tv, ok := t.tracked(e, sc); ok {
		if tv.e.hasAs() {
			return []eff{{kind: 0, e: tv.e}}
		}
		return nil
	}
	switch e := e.(type) {
	case *ast.ParenExpr:
		return t.effects(e.X, sc)
	case *ast.CallExpr:
		return t.callEffects(e, sc)
	case *ast.CompositeLit:
		var out []eff
		for _, el := range e.Elts {
			if kv, ok := el.(*ast.KeyValueExpr); ok {
				out = append(out, t.effects(kv.Key, sc)...)
				out = append(out, t.effects(kv.Value, sc)...)
			} else {
				out = append(out, t.effects(el, sc)...)
			}
		}
		return out
	case *ast.BinaryExpr:
		out := t.effects(e.X, sc)
		y := t.effects(e.Y, sc)
		if (e.Op == token.LAND || e.Op == token.LOR) && len(y) > 0 {
			t.refuse(e, "tracked operation in the right operand of && / ||")
		}
		return append(out, y...)
	case *ast.UnaryExpr:
		return t.effects(e.X, sc)
	case *ast.StarExpr:
		return t.effects(e.X, sc)
	case *ast.SelectorExpr:
		return t.effects(e.X, sc)
	case *ast.IndexExpr:
		return append(t.effects(e.X, sc), t.effects(e.Index, sc)...)
	case *ast.SliceExpr:
		out := t.effects(e.X, sc)
		out = append(out, t.effects(e.Low, sc)...)
		out = append(out, t.effects(e.High, sc)...)
		return append(out, t.effects(e.Max, sc)...)
	case *ast.TypeAssertExpr:
		t.refuse(e, "type assertion on a value the translator does not track")
	case *ast.FuncLit:
		if !t.pureNode(e.Body, t.trackedNames(sc)) {
			t.refuse(e, "function literal that operates on tracked values")
		}
		t.staleAssigned(e.Body, sc)
		return nil
	case *ast.KeyValueExpr:
		return append(t.effects(e.Key, sc), t.effects(e.Value, sc)...)
	case *ast.ArrayType, *ast.MapType, *ast.InterfaceType, *ast.StructType, *ast.FuncType, *ast.ChanType:
		return nil
	}
	t.refuse(e, "expression form %T", e)
	return nil
}

func (t *tr) trackedNames(sc *scope) map[string]bool {
	out := map[string]bool{}
	seen := map[string]bool{}
	for s := sc; s != nil && !s.boundary; s = s.parent {
		if seen[s.name] {
			continue
		}
		seen[s.name] = true
		if s.b != nil && (s.b.kind == bTracked || s.b.kind == bEntry) {
			out[s.name] = true
		}
	}
	return out
}

var builtins = map[string]bool{"len": true, "cap": true, "append": true, "make": true, "new": true, "copy": true, "string": true,
	"min": true, "max": true, "print": true, "println": true}

func (t *tr) callEffects(e *ast.CallExpr, sc *scope) []eff {
	argEffs := func() []eff {
		var out []eff
		for _, a := range e.Args {
			out = append(out, t.effects(a, sc)...)
		}
		return out
	}
	switch f := e.Fun.(type) {
	case *ast.Ident:
		if b := sc.lookup(f.Name); b != nil {
			// a local function value
			for _, a := range e.Args {
				if _, ok := t.tracked(a, sc); ok {
					t.refuse(e, "tracked value passed to a function value")
				}
			}
			return argEffs()
		}
		if f.Name == "delete" {
			t.refuse(e, "delete outside a statement of its own")
		}
		if f.Name == "panic" || f.Name == "recover" {
			t.refuse(e, "%s", f.Name)
		}
		if builtins[f.Name] || numericTypes[f.Name] || t.p.types[f.Name] {
			return argEffs()
		}
		if fd := t.p.funcs[f.Name]; fd != nil {
			return t.inline(e, fd, sc)
		}
		t.refuse(e, "call of %s, which is not a function of main.go / helpers.go", f.Name)
	case *ast.SelectorExpr:
		out := t.effects(f.X, sc)
		return append(out, argEffs()...)
	case *ast.ArrayType, *ast.MapType, *ast.InterfaceType:
		return argEffs() // conversion
	case *ast.ParenExpr:
		return argEffs()
	case *ast.FuncLit:
		t.refuse(e, "call of a function literal")
	}
	t.refuse(e, "call form %T", e.Fun)
	return nil
}

// inline a call of a helper of the package
func (t *tr) inline(call *ast.CallExpr, fd *ast.FuncDecl, sc *scope) []eff {
	for _, s := range t.stack {
		if s == fd.Name.Name {
			t.refuse(call, "recursive call of %s", fd.Name.Name)
		}
	}
	type param struct {
		name string
		typ  ast.Expr
	}
	var params []param
	for _, f := range fd.Type.Params.List {
		if _, ok := f.Type.(*ast.Ellipsis); ok {
			t.refuse(call, "variadic helper %s", fd.Name.Name)
		}
		if len(f.Names) == 0 {
			params = append(params, param{"_", f.Type})
		}
		for _, n := range f.Names {
			params = append(params, param{n.Name, f.Type})
		}
	}
	if len(params) != len(call.Args) {
		t.refuse(call, "call of %s with %d arguments for %d parameters", fd.Name.Name, len(call.Args), len(params))
	}
	tvs := make([]*tval, len(call.Args))
	tainted := map[string]bool{}
	mask := ""
	any := false
	for i, a := range call.Args {
		if tv, ok := t.tracked(a, sc); ok {
			tv := tv
			tvs[i] = &tv
			tainted[params[i].name] = true
			mask += "1"
			any = true
		} else {
			mask += "0"
		}
	}
	plain := func() []eff {
		var out []eff
		for i, a := range call.Args {
			if tvs[i] != nil {
				if tvs[i].e.hasAs() {
					out = append(out, eff{kind: 0, e: tvs[i].e})
				}
			} else {
				out = append(out, t.effects(a, sc)...)
			}
		}
		return out
	}
	key := fd.Name.Name + ":" + mask
	pure, ok := t.pureMemo[key]
	if !ok {
		pure = t.pureNode(fd.Body, tainted)
		t.pureMemo[key] = pure
	}
	if !any || pure {
		if !any && !t.pureNode(fd.Body, map[string]bool{}) {
			t.refuse(call, "helper %s asserts on values that are not tracked", fd.Name.Name)
		}
		return plain()
	}
	// evaluate the arguments in order into temporaries, then bind the parameters
	line := t.line(call)
	var pre []eff
	csc := &scope{parent: sc, boundary: true}
	blk := t.newBlk()
	type bind struct{ coq, tmp string }
	var binds []bind
	ntracked := 0
	for i := range call.Args {
		if tvs[i] != nil {
			ntracked++
		}
	}
	for i, a := range call.Args {
		if tvs[i] == nil {
			pre = append(pre, t.effects(a, sc)...)
			csc = t.declare(csc, params[i].name, &binding{kind: bUntracked, blk: blk})
			continue
		}
		tv := *tvs[i]
		pst := staticOfParam(t.p.fset, params[i].typ)
		if pst != stIface && pst != tv.st {
			t.refuse(call, "tracked argument %d of %s has another static type than the parameter", i, fd.Name.Name)
		}
		tv.st = pst
		if tv.st == stIface && tvs[i].st == stJSON {
			t.refuse(call, "JSON text passed to a helper")
		}
		b := t.trackedBinding(csc, params[i].name, tv, blk, true)
		csc = t.declare(csc, params[i].name, b)
		if ntracked == 1 {
			// the only tracked argument: no later argument can observe the parameter's name
			// only when nothing is evaluated after it
			pre = append(pre, eff{kind: 1, x: b.coq, e: tv.e})
			continue
		}
		tmp := csc.fresh(params[i].name + "@" + itoa(line))
		pre = append(pre, eff{kind: 1, x: tmp, e: tv.e})
		binds = append(binds, bind{b.coq, tmp})
	}
	if ntracked == 1 {
		// effects of later untracked arguments would be evaluated under the parameter's binding:
		// harmless only if they do not mention a variable of that name
		seenLet := false
		for _, p := range pre {
			if p.kind == 1 {
				seenLet = true
			} else if seenLet {
				t.refuse(call, "argument evaluated after the tracked argument of %s has tracked operations", fd.Name.Name)
			}
		}
	}
	if fd.Type.Results != nil {
		for _, f := range fd.Type.Results.List {
			for _, n := range f.Names {
				csc = t.declare(csc, n.Name, &binding{kind: bUntracked, blk: blk})
			}
		}
	}
	for _, bd := range binds {
		pre = append(pre, eff{kind: 1, x: bd.coq, e: eVar(bd.tmp)})
	}
	t.stack = append(t.stack, fd.Name.Name)
	body := seqEffs(pre, func() *cstmt {
		return t.list(fd.Body.List, csc, blk, ctx{}, skipK)
	})
	t.stack = t.stack[:len(t.stack)-1]
	return []eff{{kind: 2, s: body}}
}

func itoa(n int) string { return strconv.Itoa(n) }

// pureNode: a syntactic taint analysis.  true when the code does no type assertion at all and
// no index / range / delete / len-guarded access on anything derived from the tainted names, and
// passes tainted values only to helpers that are pure in the same sense.
func (t *tr) pureNode(n ast.Node, tainted map[string]bool) bool {
	tn := map[string]bool{}
	for k := range tainted {
		tn[k] = true
	}
	mentions := func(e ast.Node) bool {
		found := false
		if e == nil {
			return false
		}
		ast.Inspect(e, func(x ast.Node) bool {
			if id, ok := x.(*ast.Ident); ok && tn[id.Name] {
				found = true
			}
			return !found
		})
		return found
	}
	for changed := true; changed; {
		changed = false
		ast.Inspect(n, func(x ast.Node) bool {
			switch s := x.(type) {
			case *ast.AssignStmt:
				m := false
				for _, r := range s.Rhs {
					if mentions(r) {
						m = true
					}
				}
				if m {
					for _, l := range s.Lhs {
						if id, ok := l.(*ast.Ident); ok && id.Name != "_" && !tn[id.Name] {
							tn[id.Name] = true
							changed = true
						}
					}
				}
			case *ast.RangeStmt:
				if mentions(s.X) {
					for _, l := range []ast.Expr{s.Key, s.Value} {
						if id, ok := l.(*ast.Ident); ok && id.Name != "_" && !tn[id.Name] {
							tn[id.Name] = true
							changed = true
						}
					}
				}
			case *ast.ValueSpec:
				m := false
				for _, r := range s.Values {
					if mentions(r) {
						m = true
					}
				}
				if m {
					for _, id := range s.Names {
						if !tn[id.Name] {
							tn[id.Name] = true
							changed = true
						}
					}
				}
			}
			return true
		})
	}
	pure := true
	ast.Inspect(n, func(x ast.Node) bool {
		if !pure {
			return false
		}
		switch s := x.(type) {
		case *ast.TypeAssertExpr:
			pure = false
		case *ast.TypeSwitchStmt:
			pure = false
		case *ast.IndexExpr:
			if mentions(s.X) {
				pure = false
			}
		case *ast.RangeStmt:
			if mentions(s.X) {
				pure = false
			}
		case *ast.CallExpr:
			if id, ok := s.Fun.(*ast.Ident); ok {
				if id.Name == "delete" && len(s.Args) > 0 && mentions(s.Args[0]) {
					pure = false
				}
				if fd := t.p.funcs[id.Name]; fd != nil {
					sub := map[string]bool{}
					i := 0
					for _, f := range fd.Type.Params.List {
						names := f.Names
						if len(names) == 0 {
							i++
							continue
						}
						for _, nm := range names {
							if i < len(s.Args) && mentions(s.Args[i]) {
								sub[nm.Name] = true
							}
							i++
						}
					}
					for _, st := range t.stack {
						if st == id.Name {
							pure = false
							return false
						}
					}
					t.stack = append(t.stack, id.Name)
					if !t.pureNode(fd.Body, sub) {
						pure = false
					}
					t.stack = t.stack[:len(t.stack)-1]
				}
			}
		}
		return pure
	})
	return pure
}
