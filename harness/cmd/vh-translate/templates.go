package main

// Click-to-filter query templates (C16): for every fmt.Sprintf in the Summarize function of an
// extension whose format is a KFL comparison (`path == "%s"`, `path == %d`, joined by and), the
// path written in the template and the path of the entry the interpolated value was read from.
// Shape/TemplatesTie.v checks that the two agree for every clause: the query asks about the very
// field its value came from.  What cannot be resolved is emitted as "?" and fails the check.

import (
	"fmt"
	"go/ast"
	"go/parser"
	"go/token"
	"path/filepath"
	"regexp"
	"strconv"
	"strings"
)

func init() { register("Templates.v", translateTemplates) }

type tenv map[string][]string

func (e tenv) clone() tenv {
	n := tenv{}
	for k, v := range e {
		n[k] = v
	}
	return n
}

// pathOf resolves an expression to the entry path its value comes from.
func pathOf(fset *token.FileSet, env tenv, x ast.Expr) []string {
	switch v := x.(type) {
	case *ast.ParenExpr:
		return pathOf(fset, env, v.X)
	case *ast.TypeAssertExpr:
		return pathOf(fset, env, v.X)
	case *ast.Ident:
		if p, ok := env[v.Name]; ok {
			return p
		}
		return []string{"?" + v.Name}
	case *ast.SelectorExpr:
		s := exprString(fset, v)
		switch s {
		case "entry.Request":
			return []string{"request"}
		case "entry.Response":
			return []string{"response"}
		}
		return []string{"?" + s}
	case *ast.IndexExpr:
		base := pathOf(fset, env, v.X)
		if lit, ok := v.Index.(*ast.BasicLit); ok && lit.Kind == token.STRING {
			k, _ := strconv.Unquote(lit.Value)
			return append(append([]string{}, base...), k)
		}
		if lit, ok := v.Index.(*ast.BasicLit); ok && lit.Kind == token.INT {
			return append(append([]string{}, base...), "["+lit.Value+"]")
		}
		return append(append([]string{}, base...), "[]")
	case *ast.CallExpr:
		// value conversions and formatting keep the source: T(x), int(x), string(x), strconv.Itoa(x), fmt.Sprintf("%g", x)
		fn := exprString(fset, v.Fun)
		if len(v.Args) == 1 && valuePreserving(fn) {
			return pathOf(fset, env, v.Args[0])
		}
		if fn == "fmt.Sprintf" && len(v.Args) == 2 {
			return pathOf(fset, env, v.Args[1])
		}
		return []string{"?" + fn}
	}
	return []string{"?" + exprString(fset, x)}
}

// valuePreserving: conversions and formatters whose result denotes the same value in a KFL comparison (a type
// conversion, the decimal text of a number).  Any other call (unescaping, trimming, case folding, look-ups) may
// change the value: its result is not the field any more.
func valuePreserving(fn string) bool {
	switch fn {
	case "string", "int", "int8", "int16", "int32", "int64", "uint", "uint8", "uint16", "uint32", "uint64", "float32", "float64",
		"strconv.Itoa", "ApiKey":
		return true
	}
	return false
}

var clauseRe = regexp.MustCompile(`([A-Za-z_][A-Za-z_0-9.\[\]%d]*)\s*==\s*("?%[sdg]"?)`)

type tclause struct{ tpath, spath []string }
type ttemplate struct {
	ext, text string
	clauses   []tclause
}

func templatePath(p string) []string {
	var out []string
	for _, seg := range strings.Split(p, ".") {
		for {
			i := strings.Index(seg, "[")
			if i < 0 {
				break
			}
			if i > 0 {
				out = append(out, seg[:i])
			}
			j := strings.Index(seg, "]")
			inner := seg[i+1 : j]
			if inner == "%d" {
				out = append(out, "[]")
			} else {
				out = append(out, "["+inner+"]")
			}
			seg = seg[j+1:]
		}
		if seg != "" {
			out = append(out, seg)
		}
	}
	return out
}

func walkStmts(fset *token.FileSet, env tenv, stmts []ast.Stmt, ext string, out *[]ttemplate) {
	for _, st := range stmts {
		// templates inside this statement (before its effect on the environment for nested blocks)
		switch s := st.(type) {
		case *ast.AssignStmt:
			collectTemplates(fset, env, s, ext, out)
			if len(s.Lhs) == len(s.Rhs) {
				for i, l := range s.Lhs {
					if id, ok := l.(*ast.Ident); ok {
						if call, isCall := s.Rhs[i].(*ast.CallExpr); isCall && exprString(fset, call.Fun) == "fmt.Sprintf" {
							if lit, ok := call.Args[0].(*ast.BasicLit); ok && strings.Contains(lit.Value, "==") {
								continue // a query string, not a value
							}
						}
						env[id.Name] = pathOf(fset, env, s.Rhs[i])
					}
				}
			}
		case *ast.IfStmt:
			e2 := env.clone()
			if s.Init != nil {
				walkStmts(fset, e2, []ast.Stmt{s.Init}, ext, out)
			}
			walkStmts(fset, e2.clone(), s.Body.List, ext, out)
			if s.Else != nil {
				switch el := s.Else.(type) {
				case *ast.BlockStmt:
					walkStmts(fset, e2.clone(), el.List, ext, out)
				case *ast.IfStmt:
					walkStmts(fset, e2.clone(), []ast.Stmt{el}, ext, out)
				}
			}
		case *ast.SwitchStmt:
			for _, c := range s.Body.List {
				if cc, ok := c.(*ast.CaseClause); ok {
					walkStmts(fset, env.clone(), cc.Body, ext, out)
				}
			}
		case *ast.RangeStmt:
			e2 := env.clone()
			src := pathOf(fset, env, s.X)
			if id, ok := s.Value.(*ast.Ident); ok && s.Value != nil {
				e2[id.Name] = append(append([]string{}, src...), "[]")
			}
			if id, ok := s.Key.(*ast.Ident); ok && s.Key != nil {
				e2[id.Name] = []string{"#index"}
			}
			walkStmts(fset, e2, s.Body.List, ext, out)
		case *ast.BlockStmt:
			walkStmts(fset, env.clone(), s.List, ext, out)
		default:
			collectTemplates(fset, env, st, ext, out)
		}
	}
}

func collectTemplates(fset *token.FileSet, env tenv, n ast.Node, ext string, out *[]ttemplate) {
	ast.Inspect(n, func(x ast.Node) bool {
		call, ok := x.(*ast.CallExpr)
		if !ok || exprString(fset, call.Fun) != "fmt.Sprintf" || len(call.Args) == 0 {
			return true
		}
		lit, ok := call.Args[0].(*ast.BasicLit)
		if !ok || lit.Kind != token.STRING {
			// a format that is not a literal (built by concatenation, passed as a parameter): which query it
			// writes cannot be read off the source; unresolved, so the tie fails instead of losing the template
			*out = append(*out, ttemplate{ext: ext, text: exprString(fset, call.Args[0]), clauses: []tclause{{[]string{"?format"}, nil}}})
			return true
		}
		text, err := strconv.Unquote(lit.Value)
		if err != nil || !strings.Contains(text, "==") {
			return true
		}
		t := ttemplate{ext: ext, text: text}
		argi := 1
		nextArg := func() ast.Expr {
			if argi < len(call.Args) {
				a := call.Args[argi]
				argi++
				return a
			}
			return nil
		}
		for _, m := range clauseRe.FindAllStringSubmatch(text, -1) {
			tp := templatePath(m[1])
			// index verbs inside the path consume arguments first
			for k := 0; k < strings.Count(m[1], "%d"); k++ {
				if a := nextArg(); a == nil || strings.Join(pathOf(fset, env, a), ".") != "#index" {
					tp = append(tp, "?index")
				}
			}
			var sp []string
			if a := nextArg(); a != nil {
				sp = pathOf(fset, env, a)
			} else {
				sp = []string{"?missing"}
			}
			t.clauses = append(t.clauses, tclause{tp, sp})
		}
		if len(t.clauses) == 0 || argi != len(call.Args) {
			t.clauses = append(t.clauses, tclause{[]string{"?unparsed"}, nil})
		}
		*out = append(*out, t)
		return false
	})
}

func coqStrList(xs []string) string {
	qs := make([]string, len(xs))
	for i, x := range xs {
		qs[i] = coqStr(x)
	}
	return "[" + strings.Join(qs, "; ") + "]"
}

func translateTemplates() (string, error) {
	var all []ttemplate
	for _, ext := range []string{"amqp", "dns", "http", "kafka", "redis"} {
		fset := token.NewFileSet()
		f, err := parser.ParseFile(fset, filepath.Join(*repo, "pkg/extensions", ext, "main.go"), nil, 0)
		if err != nil {
			return "", err
		}
		for _, d := range f.Decls {
			fn, ok := d.(*ast.FuncDecl)
			if !ok || fn.Name.Name != "Summarize" || fn.Body == nil {
				continue
			}
			walkStmts(fset, tenv{}, fn.Body.List, ext, &all)
		}
	}
	var b strings.Builder
	b.WriteString("(* generated by vh-translate (go/ast over the Summarize functions of pkg/extensions/*/main.go): do not edit *)\n")
	b.WriteString("From Coq Require Import List String.\nImport ListNotations.\nLocal Open Scope string_scope.\n\n")
	b.WriteString("(* (extension, template, clauses: (path written in the template, path the interpolated value was read from)) *)\n")
	b.WriteString("Definition templates_src : list (string * string * list (list string * list string)) := [\n")
	for i, t := range all {
		var cs []string
		for _, c := range t.clauses {
			cs = append(cs, fmt.Sprintf("(%s, %s)", coqStrList(c.tpath), coqStrList(c.spath)))
		}
		sep := ";"
		if i == len(all)-1 {
			sep = ""
		}
		fmt.Fprintf(&b, "  (%s, %s, [%s])%s\n", coqStr(t.ext), coqStr(t.text), strings.Join(cs, "; "), sep)
	}
	b.WriteString("].\n")
	return b.String(), nil
}
