package main

// Shapes of the request / response maps the later stages of redis, amqp and kafka receive (C11):
// derived by reflection from the Go values the real Dissect puts into the payloads of the items
// it emits for probe conversations, following encoding/json's rules (json tags, omitempty,
// embedded structs, []byte -> base64 string, nil slices / maps / pointers -> null, interface{} ->
// any value), plus what the real Analyze adds to the maps.

import (
	"bufio"
	"encoding"
	"encoding/binary"
	"encoding/json"
	"fmt"
	"go/ast"
	"go/parser"
	"go/token"
	"path/filepath"
	"reflect"
	"sort"
	"strings"
	"time"

	"github.com/google/martian/har"
	"github.com/kubeshark/base/pkg/api"
	"github.com/kubeshark/base/pkg/extensions/amqp"
	httpext "github.com/kubeshark/base/pkg/extensions/http"
	"github.com/kubeshark/base/pkg/extensions/kafka"
	"github.com/kubeshark/base/pkg/extensions/redis"

	"verif/harness/kobs"
	"verif/harness/kty"
	"verif/harness/mock"
)

func init() {
	register("StageShapes.v", translateStageShapes)
	register("StageShapes.json", translateStageShapesJSON)
}

// ------------------------------------------------------------------------------ shapes

type shField struct {
	K string
	S *shp
}

type shp struct {
	K    string // any null bool num numtag str strtag arr obj opt
	Z    int64
	Str  string
	E    *shp
	Fs   []shField
	Rest *shp
}

var (
	shAny  = &shp{K: "any"}
	shBool = &shp{K: "bool"}
	shNum  = &shp{K: "num"}
	shStr  = &shp{K: "str"}
)

func shOpt(s *shp) *shp {
	switch s.K {
	case "any", "null", "opt":
		return s
	}
	return &shp{K: "opt", E: s}
}

func (s *shp) coq() string {
	switch s.K {
	case "any":
		return "ShAny"
	case "null":
		return "ShNull"
	case "bool":
		return "ShBool"
	case "num":
		return "ShNum"
	case "numtag":
		return "ShNumTag " + coqZ(s.Z)
	case "str":
		return "ShStr"
	case "strtag":
		return "ShStrTag " + kty.CoqString(s.Str)
	case "arr":
		return "ShArr (" + s.E.coq() + ")"
	case "arr1":
		return "ShArr1 (" + s.E.coq() + ")"
	case "opt":
		return "ShOpt (" + s.E.coq() + ")"
	case "obj":
		var fs []string
		for _, f := range s.Fs {
			fs = append(fs, fmt.Sprintf("(%s, %s)", kty.CoqString(f.K), f.S.coq()))
		}
		rest := "None"
		if s.Rest != nil {
			rest = "(Some (" + s.Rest.coq() + "))"
		}
		return "ShObj [" + strings.Join(fs, "; ") + "] " + rest
	}
	panic("shape kind " + s.K)
}

func (s *shp) json() interface{} {
	m := map[string]interface{}{"k": s.K}
	switch s.K {
	case "numtag":
		m["z"] = s.Z
	case "strtag":
		m["s"] = s.Str
	case "arr", "opt", "arr1":
		m["e"] = s.E.json()
	case "obj":
		var fs []interface{}
		for _, f := range s.Fs {
			fs = append(fs, []interface{}{f.K, f.S.json()})
		}
		if fs == nil {
			fs = []interface{}{}
		}
		m["fs"] = fs
		if s.Rest != nil {
			m["rest"] = s.Rest.json()
		}
	}
	return m
}

func (s *shp) field(k string) *shp {
	for _, f := range s.Fs {
		if f.K == k {
			return f.S
		}
	}
	return nil
}

func (s *shp) set(k string, v *shp) {
	for i, f := range s.Fs {
		if f.K == k {
			s.Fs[i].S = v
			return
		}
	}
	s.Fs = append(s.Fs, shField{k, v})
}

// conformsGo mirrors Access.conforms on decoded JSON (a translation-time sanity check only)
func conformsGo(s *shp, v interface{}) bool {
	switch s.K {
	case "any":
		return true
	case "null":
		return v == nil
	case "bool":
		_, ok := v.(bool)
		return ok
	case "num":
		_, ok := v.(float64)
		return ok
	case "numtag":
		f, ok := v.(float64)
		return ok && f == float64(s.Z)
	case "str":
		_, ok := v.(string)
		return ok
	case "strtag":
		x, ok := v.(string)
		return ok && x == s.Str
	case "arr":
		l, ok := v.([]interface{})
		if !ok {
			return false
		}
		for _, x := range l {
			if !conformsGo(s.E, x) {
				return false
			}
		}
		return true
	case "arr1":
		l, ok := v.([]interface{})
		if !ok || len(l) == 0 {
			return false
		}
		for _, x := range l {
			if !conformsGo(s.E, x) {
				return false
			}
		}
		return true
	case "opt":
		return v == nil || conformsGo(s.E, v)
	case "obj":
		o, ok := v.(map[string]interface{})
		if !ok {
			return false
		}
		for _, f := range s.Fs {
			if !conformsGo(f.S, o[f.K]) {
				return false
			}
		}
		for k, x := range o {
			if s.field(k) == nil && (s.Rest == nil || !conformsGo(s.Rest, x)) {
				return false
			}
		}
		return true
	}
	return false
}

// ------------------------------------------------------------------------------ reflection

var marshalerType = reflect.TypeOf((*json.Marshaler)(nil)).Elem()
var textMarshalerType = reflect.TypeOf((*encoding.TextMarshaler)(nil)).Elem()
var timeType = reflect.TypeOf(time.Time{})

type shaper struct {
	notes map[string]bool
	// types with a MarshalJSON of their own whose output is described by rule (read from their source)
	rules map[reflect.Type]func(sh *shaper) *shp
}

func (sh *shaper) note(format string, a ...interface{}) { sh.notes[fmt.Sprintf(format, a...)] = true }

func implements(t reflect.Type, it reflect.Type) bool {
	return t.Implements(it) || (t.Kind() != reflect.Ptr && reflect.PtrTo(t).Implements(it))
}

// shapeT: the value encoding/json produces for any value of type t, decoded into interface{}
func (sh *shaper) shapeT(t reflect.Type, seen map[reflect.Type]bool) *shp {
	if t == timeType {
		return shStr // Time.MarshalJSON: an RFC 3339 string
	}
	if r, ok := sh.rules[t]; ok {
		return r(sh)
	}
	if t.Kind() == reflect.Ptr {
		if r, ok := sh.rules[t.Elem()]; ok {
			return shOpt(r(sh))
		}
	}
	if t.Kind() != reflect.Interface && implements(t, marshalerType) {
		sh.note("%s has its own MarshalJSON: taken as any value", t)
		if t.Kind() == reflect.Ptr || t.Kind() == reflect.Map || t.Kind() == reflect.Slice {
			return shAny
		}
		return shAny
	}
	if t.Kind() != reflect.Interface && implements(t, textMarshalerType) {
		if t.Kind() == reflect.Ptr {
			return shOpt(shStr)
		}
		return shStr
	}
	switch t.Kind() {
	case reflect.Bool:
		return shBool
	case reflect.Int, reflect.Int8, reflect.Int16, reflect.Int32, reflect.Int64, reflect.Uint, reflect.Uint8, reflect.Uint16,
		reflect.Uint32, reflect.Uint64, reflect.Uintptr, reflect.Float32, reflect.Float64:
		return shNum
	case reflect.String:
		return shStr
	case reflect.Interface:
		return shAny
	case reflect.Ptr:
		if seen[t.Elem()] {
			return shAny
		}
		return shOpt(sh.shapeT(t.Elem(), seen))
	case reflect.Slice:
		if t.Elem().Kind() == reflect.Uint8 && !implements(t.Elem(), marshalerType) && !implements(t.Elem(), textMarshalerType) {
			return shOpt(shStr) // base64
		}
		if seen[t.Elem()] {
			return shAny
		}
		return shOpt(&shp{K: "arr", E: sh.shapeT(t.Elem(), seen)})
	case reflect.Array:
		return &shp{K: "arr", E: sh.shapeT(t.Elem(), seen)}
	case reflect.Map:
		switch t.Key().Kind() {
		case reflect.String, reflect.Int, reflect.Int8, reflect.Int16, reflect.Int32, reflect.Int64, reflect.Uint, reflect.Uint8,
			reflect.Uint16, reflect.Uint32, reflect.Uint64:
		default:
			if !implements(t.Key(), textMarshalerType) {
				sh.note("map key type %s is not encodable", t.Key())
				return shAny
			}
		}
		return shOpt(&shp{K: "obj", Rest: sh.shapeT(t.Elem(), seen)})
	case reflect.Struct:
		if seen[t] {
			return shAny
		}
		seen2 := map[reflect.Type]bool{t: true}
		for k := range seen {
			seen2[k] = true
		}
		return sh.structShape(t, nil, seen2)
	}
	sh.note("type %s (kind %s) is not encodable", t, t.Kind())
	return shAny
}

type fieldCand struct {
	name   string
	depth  int
	tagged bool
	s      *shp
	order  int
}

// structShape follows encoding/json's typeFields: exported fields, tags, omitempty, ",string",
// embedded structs flattened with the shallowest / tagged field winning.  vals (optional) gives
// the shapes of interface-typed fields observed on a sample value.
func (sh *shaper) structShape(t reflect.Type, over map[string]*shp, seen map[reflect.Type]bool) *shp {
	var cands []fieldCand
	order := 0
	var walk func(t reflect.Type, depth int, optional bool)
	walk = func(t reflect.Type, depth int, optional bool) {
		for i := 0; i < t.NumField(); i++ {
			f := t.Field(i)
			tag := f.Tag.Get("json")
			if tag == "-" {
				continue
			}
			name, opts := tag, ""
			if j := strings.Index(tag, ","); j >= 0 {
				name, opts = tag[:j], tag[j:]
			}
			if f.Anonymous {
				ft := f.Type
				ptr := false
				if ft.Kind() == reflect.Ptr {
					ft = ft.Elem()
					ptr = true
				}
				if !f.IsExported() && ft.Kind() != reflect.Struct {
					continue
				}
				if name == "" && ft.Kind() == reflect.Struct && !implements(ft, marshalerType) && !implements(ft, textMarshalerType) {
					walk(ft, depth+1, optional || ptr)
					continue
				}
			} else if !f.IsExported() {
				continue
			}
			tagged := name != ""
			if name == "" {
				name = f.Name
			}
			var s *shp
			if o, ok := over[f.Name]; ok && depth == 0 {
				s = o
			} else {
				s = sh.shapeT(f.Type, seen)
			}
			if strings.Contains(opts, ",string") {
				switch f.Type.Kind() {
				case reflect.Bool, reflect.Int, reflect.Int8, reflect.Int16, reflect.Int32, reflect.Int64, reflect.Uint, reflect.Uint8,
					reflect.Uint16, reflect.Uint32, reflect.Uint64, reflect.Float32, reflect.Float64, reflect.String:
					s = shStr
				}
			}
			if strings.Contains(opts, ",omitempty") || optional {
				s = shOpt(s) // an absent key reads as nil
			}
			cands = append(cands, fieldCand{name, depth, tagged, s, order})
			order++
		}
	}
	walk(t, 0, false)
	by := map[string][]fieldCand{}
	var names []string
	for _, c := range cands {
		if _, ok := by[c.name]; !ok {
			names = append(names, c.name)
		}
		by[c.name] = append(by[c.name], c)
	}
	out := &shp{K: "obj"}
	for _, n := range names {
		cs := by[n]
		min := cs[0].depth
		for _, c := range cs {
			if c.depth < min {
				min = c.depth
			}
		}
		var at, tagged []fieldCand
		for _, c := range cs {
			if c.depth == min {
				at = append(at, c)
				if c.tagged {
					tagged = append(tagged, c)
				}
			}
		}
		switch {
		case len(at) == 1:
			out.Fs = append(out.Fs, shField{n, at[0].s})
		case len(tagged) == 1:
			out.Fs = append(out.Fs, shField{n, tagged[0].s})
		}
	}
	return out
}

// shapeV: the shape of what a sample VALUE encodes to: interface-typed fields are followed into
// the dynamic value they hold (and from there on the TYPE decides), pointers that are set are
// taken as always set, a struct whose MarshalJSON output equals that of its single field is that
// field.  Used only for the wrappers around the payload (GenericMessage.Payload ... details).
func (sh *shaper) shapeV(v reflect.Value) *shp {
	switch v.Kind() {
	case reflect.Interface:
		if v.IsNil() {
			return shAny
		}
		return sh.shapeV(v.Elem())
	case reflect.Ptr:
		if v.IsNil() {
			return sh.shapeT(v.Type(), map[reflect.Type]bool{})
		}
		if v.Type() != reflect.PtrTo(timeType) && implements(v.Type(), marshalerType) && v.Elem().Kind() == reflect.Struct {
			if s := sh.wrapper(v.Elem()); s != nil {
				return s
			}
		}
		return sh.shapeV(v.Elem())
	case reflect.Struct:
		t := v.Type()
		if t == timeType {
			return shStr
		}
		if implements(t, marshalerType) {
			if s := sh.wrapper(v); s != nil {
				return s
			}
			return sh.shapeT(t, map[reflect.Type]bool{})
		}
		over := map[string]*shp{}
		for i := 0; i < t.NumField(); i++ {
			f := t.Field(i)
			if f.IsExported() && !f.Anonymous && f.Type.Kind() == reflect.Interface && !v.Field(i).IsNil() {
				over[f.Name] = sh.shapeV(v.Field(i))
			}
		}
		return sh.structShape(t, over, map[reflect.Type]bool{t: true})
	}
	return sh.shapeT(v.Type(), map[reflect.Type]bool{})
}

// wrapper: type X struct{ Data interface{} } with MarshalJSON() = json.Marshal(Data)
func (sh *shaper) wrapper(v reflect.Value) *shp {
	t := v.Type()
	if t.NumField() != 1 || !t.Field(0).IsExported() || !v.CanInterface() {
		return nil
	}
	a, err1 := json.Marshal(v.Interface())
	b, err2 := json.Marshal(v.Field(0).Interface())
	if err1 != nil || err2 != nil || string(a) != string(b) {
		return nil
	}
	sh.note("%s marshals as its field %s (observed on the sample)", t, t.Field(0).Name)
	return sh.shapeV(v.Field(0))
}

// ------------------------------------------------------------------------------ from an item to the stage inputs

type sideShape struct {
	tag   string // the discriminating value (amqp method, kafka api name)
	shape *shp
	typ   string // Go type of the details
}

func roundTrip(in, out interface{}) error {
	b, err := json.Marshal(in)
	if err != nil {
		return err
	}
	return json.Unmarshal(b, out)
}

// stageInputs runs the item through the JSON round trips and the real Analyze.
func stageInputs(d api.Dissector, item *api.OutputChannelItem) (req, resp map[string]interface{}, err error) {
	defer func() {
		if r := recover(); r != nil {
			err = fmt.Errorf("panic: %v", r)
		}
	}()
	var item2 api.OutputChannelItem
	if err = roundTrip(item, &item2); err != nil {
		return
	}
	entry := d.Analyze(&item2, &api.Resolution{}, &api.Resolution{})
	var entry2 api.Entry
	if err = roundTrip(entry, &entry2); err != nil {
		return
	}
	return entry2.Request, entry2.Response, nil
}

func tagOf(v interface{}) *shp {
	switch x := v.(type) {
	case string:
		if printableASCII(x) {
			return &shp{K: "strtag", Str: x}
		}
		return shStr
	case float64:
		if x == float64(int64(x)) && x < 1<<31 && x > -(1<<31) {
			return &shp{K: "numtag", Z: int64(x)}
		}
		return shNum
	case bool:
		return shBool
	case nil:
		return &shp{K: "null"}
	}
	return shAny
}

func typeName(v interface{}) string {
	if v == nil {
		return "nil"
	}
	return reflect.TypeOf(v).String()
}

// sideOf derives the shape of one side (request or response) of the stage input for a sample item.
// discr: fields of the details whose sample value is what selects the alternative.
func (sh *shaper) sideOf(payload interface{}, actual map[string]interface{}, discr []string, problems *[]string, what string) *shp {
	w := sh.shapeV(reflect.ValueOf(payload))
	var det *shp
	if w.K == "obj" {
		det = w.field("details")
	}
	if det == nil || det.K != "obj" {
		*problems = append(*problems, what+": the payload does not encode to an object with an object under \"details\"")
		return shAny
	}
	cp := &shp{K: "obj", Rest: det.Rest}
	cp.Fs = append(cp.Fs, det.Fs...)
	// what Analyze added to the map (observed on the sample): fixed values
	var extra []string
	for k := range actual {
		if cp.field(k) == nil {
			extra = append(extra, k)
		}
	}
	sort.Strings(extra)
	for _, k := range extra {
		cp.set(k, tagOf(actual[k]))
	}
	for _, k := range discr {
		if cp.field(k) != nil {
			cp.set(k, tagOf(actual[k]))
		}
	}
	if !conformsGo(cp, actual) {
		b, _ := json.Marshal(actual)
		*problems = append(*problems, what+": the sample value does not conform to the derived shape: "+string(b))
	}
	return cp
}

// ------------------------------------------------------------------------------ probes

func dissectPair(d api.Dissector, client, server []byte, port string) (items []*api.OutputChannelItem, panicked string) {
	matcher := d.NewResponseRequestMatcher()
	matcher.SetMaxTry(2)
	stream := &mock.Stream{PcapId: "verif"}
	col := &mock.Collector{}
	cp := &api.CounterPair{}
	half := func(data []byte, isClient bool) {
		id := &api.TcpID{SrcIP: "10.0.0.1", DstIP: "10.0.0.2", SrcPort: "40000", DstPort: port}
		if !isClient {
			id = &api.TcpID{SrcIP: "10.0.0.2", DstIP: "10.0.0.1", SrcPort: port, DstPort: "40000"}
		}
		r := &mock.Reader{Chunks: [][]byte{data}, TailKind: mock.TailEOF, Matcher: matcher, IsClient: isClient,
			Progress: &api.ReadProgress{}, Parent: stream, TcpID: id, CounterPair: cp, CaptureTime: time.Unix(1700000000, 0).UTC(), Emitter: col}
		defer func() {
			if p := recover(); p != nil {
				panicked = fmt.Sprint(p)
			}
		}()
		d.Dissect(bufio.NewReader(r), r)
	}
	half(client, true)
	half(server, false)
	return col.Items, panicked
}

type altOut struct {
	name      string
	req, resp *shp
}

type shapesOut struct {
	alts     map[string][]altOut
	problems []string
	notes    []string
}

var shapesCache *shapesOut

func amqpFrame(typ byte, channel uint16, payload []byte) []byte {
	b := []byte{typ, byte(channel >> 8), byte(channel)}
	b = binary.BigEndian.AppendUint32(b, uint32(len(payload)))
	b = append(b, payload...)
	return append(b, 0xCE)
}

// a method frame with all-zero arguments (empty strings and tables, cleared bits), followed by a
// content header without properties and a one-octet body (ignored unless the method carries content)
func amqpProbe(class, method uint16) []byte {
	p := []byte{byte(class >> 8), byte(class), byte(method >> 8), byte(method)}
	p = append(p, make([]byte, 64)...)
	out := amqpFrame(1, 1, p)
	h := []byte{0, 60, 0, 0, 0, 0, 0, 0, 0, 0, 0, 1, 0, 0}
	out = append(out, amqpFrame(2, 1, h)...)
	return append(out, amqpFrame(3, 1, []byte{'x'})...)
}

// method names passed to emitEvent in Dissect (go/ast), to cross-check the probes
func amqpEmittedNames() (map[string]bool, error) {
	p, err := loadStagePkg("amqp", 0)
	if err != nil {
		return nil, err
	}
	fset := token.NewFileSet()
	af, err := parser.ParseFile(fset, filepath.Join(*repo, "pkg/extensions/amqp/main.go"), nil, 0)
	if err != nil {
		return nil, err
	}
	t := &tr{p: p}
	out := map[string]bool{}
	bad := false
	ast.Inspect(af, func(n ast.Node) bool {
		c, ok := n.(*ast.CallExpr)
		if !ok {
			return true
		}
		sel, ok := c.Fun.(*ast.SelectorExpr)
		if !ok || sel.Sel.Name != "emitEvent" || len(c.Args) != 5 {
			return true
		}
		s, ok := t.strLit(c.Args[2], nil)
		if !ok {
			bad = true
			return true
		}
		out[s] = true
		return true
	})
	if bad {
		return nil, fmt.Errorf("an emitEvent call of amqp Dissect has a method argument that is not a constant")
	}
	return out, nil
}

func runShapes() (*shapesOut, error) {
	if shapesCache != nil {
		return shapesCache, nil
	}
	sh := &shaper{notes: map[string]bool{}}
	out := &shapesOut{alts: map[string][]altOut{}}

	// ---- redis: one kind of request, one kind of response
	{
		d := redis.NewDissector()
		items, p := dissectPair(d, []byte("*1\r\n$4\r\nPING\r\n"), []byte("+PONG\r\n"), "6379")
		if p != "" || len(items) != 1 {
			out.problems = append(out.problems, fmt.Sprintf("redis: the probe conversation gave %d items (panic %q)", len(items), p))
		} else {
			rq, rs, err := stageInputs(d, items[0])
			if err != nil {
				out.problems = append(out.problems, "redis: "+err.Error())
			} else {
				a := altOut{name: "redis"}
				a.req = sh.sideOf(items[0].Pair.Request.Payload, rq, nil, &out.problems, "redis request")
				a.resp = sh.sideOf(items[0].Pair.Response.Payload, rs, nil, &out.problems, "redis response")
				out.alts["redis"] = append(out.alts["redis"], a)
			}
		}
	}

	// ---- amqp: every (class, method) is sent by both halves; what is emitted shows which methods
	// are reported, as request and as response, with which Go value
	{
		d := amqp.NewDissector()
		type kind struct {
			name  string
			shape *shp
		}
		type group struct{ reqs, resps []kind }
		groups := map[string]*group{}
		var gorder []string
		seenNames := map[string]bool{}
		add := func(l *[]kind, k kind) {
			for _, x := range *l {
				if x.name == k.name {
					if x.shape.coq() != k.shape.coq() {
						out.problems = append(out.problems, "amqp: two shapes for method "+k.name)
					}
					return
				}
			}
			*l = append(*l, k)
		}
		for _, class := range []uint16{10, 20, 30, 40, 50, 60, 85, 90} {
			for method := uint16(0); method <= 130; method++ {
				probe := amqpProbe(class, method)
				items, p := dissectPair(d, probe, probe, "5672")
				if p != "" {
					out.problems = append(out.problems, fmt.Sprintf("amqp: probe of method %d.%d panics: %s", class, method, p))
					continue
				}
				gk := fmt.Sprintf("%d.%d", class, method-method%10)
				for _, it := range items {
					rq, rs, err := stageInputs(d, it)
					if err != nil {
						out.problems = append(out.problems, fmt.Sprintf("amqp: item of probe %d.%d: %v", class, method, err))
						continue
					}
					g := groups[gk]
					if g == nil {
						g = &group{}
						groups[gk] = g
						gorder = append(gorder, gk)
					}
					rn, _ := rq["method"].(string)
					sn, _ := rs["method"].(string)
					seenNames[rn], seenNames[sn] = true, true
					add(&g.reqs, kind{rn, sh.sideOf(it.Pair.Request.Payload, rq, nil, &out.problems, "amqp request "+rn)})
					add(&g.resps, kind{sn, sh.sideOf(it.Pair.Response.Payload, rs, nil, &out.problems, "amqp response "+sn)})
				}
			}
		}
		// the pairing key is connection + channel + class + (method - method%10) (getIdent): any
		// method reported as a request can be paired with any method of its group reported as a
		// response (either peer may send either)
		dup := map[string]bool{}
		for _, gk := range gorder {
			g := groups[gk]
			for _, a := range g.reqs {
				for _, b := range g.resps {
					key := a.shape.coq() + "/" + b.shape.coq()
					if dup[key] {
						continue
					}
					dup[key] = true
					out.alts["amqp"] = append(out.alts["amqp"], altOut{name: a.name + " / " + b.name, req: a.shape, resp: b.shape})
				}
			}
		}
		if names, err := amqpEmittedNames(); err != nil {
			out.problems = append(out.problems, "amqp: "+err.Error())
		} else {
			for n := range names {
				if !seenNames[n] {
					out.problems = append(out.problems, "amqp: Dissect reports method \""+n+"\" but no probe made it emit it")
				}
			}
			for n := range seenNames {
				if !names[n] {
					out.problems = append(out.problems, "amqp: a probe emitted method \""+n+"\" that no emitEvent call names")
				}
			}
		}
	}

	// ---- kafka: header-only request + response for every api key and version of a grid; versions
	// with the same pair of shapes form one alternative
	{
		d := kafka.NewDissector()
		grid := []int16{-32768, -1}
		for v := int16(0); v <= 16; v++ {
			grid = append(grid, v)
		}
		grid = append(grid, 32767)
		for k := int16(-1); k <= 64; k++ {
			type run struct {
				lo, hi    int16
				req, resp *shp
				name      string
			}
			var runs []run
			for _, v := range grid {
				r := kobs.Run(kobs.Half{Data: kobs.HeaderOnlyRequest(k, v, 7)}, kobs.Half{Data: kobs.HeaderOnlyResponse(7)}, "cs", 2)
				if r.Panic != "" {
					out.problems = append(out.problems, fmt.Sprintf("kafka: probe of api %d v%d panics: %s", k, v, r.Panic))
					continue
				}
				if len(r.Items) == 0 {
					continue
				}
				it := r.Items[0]
				rq, rs, err := stageInputs(d, it)
				if err != nil {
					out.problems = append(out.problems, fmt.Sprintf("kafka: item of api %d v%d: %v", k, v, err))
					continue
				}
				what := fmt.Sprintf("kafka api %d v%d", k, v)
				a := sh.sideOf(it.Pair.Request.Payload, rq, []string{"apiKey", "apiKeyName"}, &out.problems, what+" request")
				b := sh.sideOf(it.Pair.Response.Payload, rs, nil, &out.problems, what+" response")
				name, _ := rq["apiKeyName"].(string)
				if n := len(runs); n > 0 && runs[n-1].req.coq() == a.coq() && runs[n-1].resp.coq() == b.coq() {
					runs[n-1].hi = v
				} else {
					runs = append(runs, run{v, v, a, b, name})
				}
			}
			for _, r := range runs {
				out.alts["kafka"] = append(out.alts["kafka"], altOut{name: fmt.Sprintf("%s v%d..%d", r.name, r.lo, r.hi), req: r.req, resp: r.resp})
			}
		}
	}
	// ---- http: HTTPPayload.MarshalJSON converts the *http.Request / *http.Response with
	// har.NewRequest / har.NewResponse and marshals HTTPWrapper{Details: *har.Request | *har.Response}
	{
		sh.rules = map[reflect.Type]func(sh *shaper) *shp{
			// har.PostData.MarshalJSON: its own fields when Text is valid UTF-8, else the same keys with
			// text in base64 and "encoding": "base64"
			reflect.TypeOf(har.PostData{}): func(sh *shaper) *shp {
				t := reflect.TypeOf(har.PostData{})
				s := sh.structShape(t, nil, map[reflect.Type]bool{t: true})
				s.set("encoding", shOpt(&shp{K: "strtag", Str: "base64"}))
				return s
			},
		}
		seen := map[reflect.Type]bool{}
		rq := sh.shapeT(reflect.TypeOf(har.Request{}), seen)
		rs := sh.shapeT(reflect.TypeOf(har.Response{}), seen)
		anyMap := func() *shp { return &shp{K: "obj", Rest: shAny} }
		// Analyze (encoded by rule from pkg/extensions/http/main.go): headers and cookies of both sides
		// and the request's queryString are rebuilt with make() as maps name -> value (a string, or a
		// list / joined string for repeated names); targetUri, path and pathSegments are added
		for _, k := range []string{"headers", "cookies", "queryString"} {
			rq.set(k, anyMap())
		}
		for _, k := range []string{"headers", "cookies"} {
			rs.set(k, anyMap())
		}
		rq.set("targetUri", shStr)
		rq.set("path", shStr)
		rq.set("pathSegments", &shp{K: "arr", E: shStr})
		// har.NewResponse always sets Content, with Encoding "base64"
		if c := rs.field("content"); c != nil && c.K == "opt" && c.E.K == "obj" {
			c.E.set("encoding", &shp{K: "strtag", Str: "base64"})
			rs.set("content", c.E)
		} else {
			out.problems = append(out.problems, "http: har.Response has no optional object \"content\"")
		}
		out.alts["http"] = append(out.alts["http"], altOut{name: "http", req: rq, resp: rs})
		// probes through the real Dissect and Analyze: the observed maps must conform
		d := httpext.NewDissector()
		probes := [][2]string{
			{"GET /a/b?x=1&x=2&y=3 HTTP/1.1\r\nHost: h\r\nCookie: c=d\r\nAccept: a\r\nAccept: b\r\n\r\n", "HTTP/1.1 200 OK\r\nContent-Type: text/plain\r\nSet-Cookie: k=v\r\nContent-Length: 2\r\n\r\nok"},
			{"POST /f HTTP/1.1\r\nHost: h\r\nContent-Type: application/x-www-form-urlencoded\r\nContent-Length: 7\r\n\r\na=1&b=2", "HTTP/1.1 204 No Content\r\n\r\n"},
			{"POST /j HTTP/1.1\r\nHost: h\r\nContent-Type: application/json\r\nContent-Length: 2\r\n\r\n{}", "HTTP/1.1 302 Found\r\nLocation: /x\r\nContent-Length: 0\r\n\r\n"},
			{"POST /b HTTP/1.1\r\nHost: h\r\nContent-Type: application/octet-stream\r\nContent-Length: 2\r\n\r\n\xff\xfe", "HTTP/1.1 200 OK\r\nContent-Length: 1\r\n\r\n\xff"},
		}
		for i, pr := range probes {
			items, p := dissectPair(d, []byte(pr[0]), []byte(pr[1]), "80")
			if p != "" || len(items) != 1 {
				out.problems = append(out.problems, fmt.Sprintf("http: probe %d gave %d items (panic %q)", i, len(items), p))
				continue
			}
			a, b, err := stageInputs(d, items[0])
			if err != nil {
				out.problems = append(out.problems, fmt.Sprintf("http: probe %d: %v", i, err))
				continue
			}
			if !conformsGo(rq, a) || !conformsGo(rs, b) {
				x, _ := json.Marshal(a)
				y, _ := json.Marshal(b)
				out.problems = append(out.problems, fmt.Sprintf("http: the stage inputs of probe %d do not conform to the derived shapes: %s / %s", i, x, y))
			}
		}
	}

	// ---- dns: the items are built outside this repository (the dissector has no stream side): the
	// shape is written down by rule - what Summarize / Represent of pkg/extensions/dns require of
	// an entry and the worker provides (same assumptions as the hand model Shape/Dns.v)
	{
		str := func(ks ...string) []shField {
			var fs []shField
			for _, k := range ks {
				fs = append(fs, shField{k, shStr})
			}
			return fs
		}
		question := &shp{K: "obj", Fs: str("name", "type", "class"), Rest: shAny}
		rec := &shp{K: "obj", Fs: str("name", "type", "class"), Rest: shAny}
		rec.Fs = append(rec.Fs, shField{"ttl", shNum})
		rec.Fs = append(rec.Fs, str("ip", "ns", "cname", "ptr", "txts", "soa", "srv", "mx", "opt", "uri")...)
		rq := &shp{K: "obj", Fs: []shField{{"opCode", shStr}, {"questions", &shp{K: "arr1", E: question}}}, Rest: shAny}
		rs := &shp{K: "obj", Fs: []shField{{"code", shStr}}, Rest: shAny}
		for _, k := range []string{"answers", "authorities", "additionals"} {
			rs.Fs = append(rs.Fs, shField{k, shOpt(&shp{K: "arr", E: rec})})
		}
		out.alts["dns"] = append(out.alts["dns"], altOut{name: "dns", req: rq, resp: rs})
	}
	for n := range sh.notes {
		out.notes = append(out.notes, n)
	}
	sort.Strings(out.notes)
	shapesCache = out
	return out, nil
}

const shapesHeader = `(* generated by vh-translate (harness/cmd/vh-translate/stageshapes.go): do not edit.

   alts_<ext>: the shapes of the request and response maps Summarize / Represent receive, one
   alternative per kind of request that can be paired with a kind of response.  Derived by
   reflection (encoding/json's rules: json tags, omitempty, embedded structs, []byte -> base64
   string, nil slice / map / pointer -> null, interface{} -> any value, time.Time -> string) from
   the Go values the REAL Dissect puts into the payloads of the items it emits for probe
   conversations; keys the real Analyze adds to the maps (amqp "method") are taken with the value
   observed on the probe.

   Encoded from the source, not derivable by reflection:
   * redis: every item has the same two types;
   * amqp: every (class, method) up to 130 of the classes 10..90 is sent by both peers with
     all-zero arguments; a method seen as a request is paired with every method of its pairing
     group (class, method - method mod 10: getIdent) seen as a response, because either peer may
     send either.  The set of method names is cross-checked against the emitEvent calls of Dissect;
   * kafka: header-only request and response for api keys -1..64 and versions -32768, -1..16,
     32767; versions with equal shapes form one alternative; "apiKey" / "apiKeyName" of the
     request are fixed by the alternative, the version is any number (the layout selection is
     assumed monotone beyond 16: its thresholds are <= 11);
   * a pointer or interface that is set in the wrappers around the details (Payload, Data,
     Details, Request.Payload) is taken as always set and of that dynamic type;
   * http: HTTPPayload.MarshalJSON serialises HTTPWrapper{Details: *har.Request | *har.Response} of
     github.com/google/martian/har: the shapes are those types by reflection, with (by rule, read from
     the sources) har.PostData's own MarshalJSON (same keys, plus "encoding": "base64" for binary
     text), har.NewResponse always setting Content with Encoding "base64", and Analyze's rewriting:
     headers / cookies (both sides) and queryString become maps made with make() (any values),
     targetUri / path (strings) and pathSegments (strings) are added.  One alternative covers
     HTTP/1, HTTP/2 and gRPC (the same har types); four probe conversations through the real Dissect
     and Analyze are checked against it;
   * dns: the entries are built outside this repository; the shape (at least one question with
     string name / type / class; records with those, a numeric ttl and the ten string fields;
     answers / authorities / additionals absent, null or arrays; other keys unconstrained) is
     written down by rule - the assumptions of the hand model Shape/Dns.v.
   shape_problems lists what went wrong while deriving (must be empty). *)
`

func translateStageShapes() (string, error) {
	o, err := runShapes()
	if err != nil {
		return "", err
	}
	var b strings.Builder
	b.WriteString(shapesHeader)
	for _, n := range o.notes {
		fmt.Fprintf(&b, "(* note: %s *)\n", strings.ReplaceAll(n, "*)", "* )"))
	}
	b.WriteString("From Coq Require Import List String ZArith.\nRequire Import V.Base.Prelude V.Shape.Access.\nImport ListNotations.\nLocal Open Scope string_scope.\n\n")
	names := map[string]string{}
	n := 0
	def := func(s *shp) string {
		c := s.coq()
		if nm, ok := names[c]; ok {
			return nm
		}
		n++
		nm := fmt.Sprintf("shp_%d", n)
		names[c] = nm
		fmt.Fprintf(&b, "Definition %s : shape := %s.\n", nm, c)
		return nm
	}
	for _, ext := range stageExts {
		var rows []string
		for _, a := range o.alts[ext] {
			rq, rs := def(a.req), def(a.resp)
			rows = append(rows, fmt.Sprintf("  {| alt_name := %s; alt_req := %s; alt_resp := %s |}", kty.CoqString(a.name), rq, rs))
		}
		fmt.Fprintf(&b, "\nDefinition alts_%s : list alt := [\n%s].\n\n", ext, strings.Join(rows, ";\n"))
	}
	var ps []string
	for _, p := range o.problems {
		ps = append(ps, kty.CoqString(p))
	}
	fmt.Fprintf(&b, "Definition shape_problems : list string := [%s].\n", strings.Join(ps, ";\n  "))
	return b.String(), nil
}

func translateStageShapesJSON() (string, error) {
	o, err := runShapes()
	if err != nil {
		return "", err
	}
	m := map[string]interface{}{"problems": o.problems, "notes": o.notes}
	alts := map[string]interface{}{}
	for _, ext := range stageExts {
		var l []interface{}
		for _, a := range o.alts[ext] {
			l = append(l, map[string]interface{}{"name": a.name, "req": a.req.json(), "resp": a.resp.json()})
		}
		alts[ext] = l
	}
	m["alts"] = alts
	if o.problems == nil {
		m["problems"] = []string{}
	}
	bs, err := json.Marshal(m)
	return string(bs) + "\n", err
}
