// vh-translate regenerates coq/gen/*.v from the source of /repo (DESIGN.md: tie "T").
// Every translator prints Coq terms only; constructs it does not understand are emitted as
// ...Unknown constructors, never guessed.
package main

import (
	"flag"
	"fmt"
	"os"
	"path/filepath"
)

var repo = flag.String("repo", "/repo", "repository root")
var out = flag.String("out", "", "output directory")

type translator struct {
	file string
	run  func() (string, error)
}

var translators []translator

func register(file string, run func() (string, error)) {
	translators = append(translators, translator{file, run})
}

func main() {
	flag.Parse()
	if *out == "" {
		fmt.Fprintln(os.Stderr, "-out required")
		os.Exit(2)
	}
	rc := 0
	for _, t := range translators {
		s, err := t.run()
		if err != nil {
			fmt.Fprintf(os.Stderr, "%s: %v\n", t.file, err)
			rc = 1
			continue
		}
		if err := os.WriteFile(filepath.Join(*out, t.file), []byte(s), 0o644); err != nil {
			fmt.Fprintln(os.Stderr, err)
			rc = 1
		}
	}
	os.Exit(rc)
}
