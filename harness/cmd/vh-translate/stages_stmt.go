package main

// Statements of the stage functions -> stmt of Access.v.  Early exits (return, break out of a
// switch, continue) are restructured: what follows an `if` / `switch` that contains one becomes
// the continuation of its branches.

import (
	"go/ast"
	"go/token"
	"strconv"
)

type ctx struct {
	brk      func() *cstmt // nil: a break cannot be rendered here
	cont     func() *cstmt
	noReturn bool
	// variables of the block an `if` stands in that its branches assign: inside the branch with the
	// given block id the assignment re-binds the variable (the rest of the enclosing block is
	// translated inside the branch, so the new binding reaches everything the Go assignment reaches)
	rebind map[*binding]int
}

func hasExit(n ast.Node) bool {
	found := false
	var walk func(n ast.Node, inLoop, inBreakable bool)
	walk = func(n ast.Node, inLoop, inBreakable bool) {
		if n == nil || found {
			return
		}
		switch s := n.(type) {
		case *ast.FuncLit:
			return
		case *ast.ReturnStmt:
			found = true
		case *ast.BranchStmt:
			switch s.Tok {
			case token.BREAK:
				if s.Label != nil || !inBreakable {
					found = true
				}
			case token.CONTINUE:
				if s.Label != nil || !inLoop {
					found = true
				}
			case token.GOTO:
				found = true
			}
		case *ast.ForStmt:
			walk(s.Body, true, true)
		case *ast.RangeStmt:
			walk(s.Body, true, true)
		case *ast.SwitchStmt:
			walk(s.Body, inLoop, true)
		case *ast.TypeSwitchStmt:
			walk(s.Body, inLoop, true)
		case *ast.SelectStmt:
			walk(s.Body, inLoop, true)
		case *ast.BlockStmt:
			for _, x := range s.List {
				walk(x, inLoop, inBreakable)
			}
		case *ast.IfStmt:
			walk(s.Body, inLoop, inBreakable)
			walk(s.Else, inLoop, inBreakable)
		case *ast.CaseClause:
			for _, x := range s.Body {
				walk(x, inLoop, inBreakable)
			}
		case *ast.CommClause:
			for _, x := range s.Body {
				walk(x, inLoop, inBreakable)
			}
		case *ast.LabeledStmt:
			walk(s.Stmt, inLoop, inBreakable)
		}
	}
	walk(n, false, false)
	return found
}

func (t *tr) list(stmts []ast.Stmt, sc *scope, blk int, c ctx, k func() *cstmt) *cstmt {
	if len(stmts) == 0 {
		return k()
	}
	rest := func(sc2 *scope) func() *cstmt {
		return func() *cstmt { return t.list(stmts[1:], sc2, blk, c, k) }
	}
	switch s := stmts[0].(type) {
	case *ast.EmptyStmt:
		return rest(sc)()
	case *ast.ExprStmt, *ast.AssignStmt, *ast.DeclStmt, *ast.IncDecStmt:
		effs, sc2 := t.simple(s, sc, blk, c)
		return seqEffs(effs, rest(sc2))
	case *ast.ReturnStmt:
		if c.noReturn {
			t.refuse(s, "return inside a range over tracked data")
		}
		var effs []eff
		for _, r := range s.Results {
			effs = append(effs, t.effects(r, sc)...)
		}
		return seqEffs(effs, skipK)
	case *ast.BranchStmt:
		if s.Label != nil {
			t.refuse(s, "labelled %s", s.Tok)
		}
		switch s.Tok {
		case token.BREAK:
			if c.brk == nil {
				t.refuse(s, "break out of a loop")
			}
			return c.brk()
		case token.CONTINUE:
			if c.cont == nil {
				t.refuse(s, "continue outside a range over tracked data")
			}
			return c.cont()
		}
		t.refuse(s, "%s", s.Tok)
	case *ast.BlockStmt:
		if hasExit(s) {
			return t.list(s.List, sc, t.newBlk(), c, rest(sc))
		}
		a := t.list(s.List, sc, t.newBlk(), c, skipK)
		return seq(a, rest(sc)())
	case *ast.IfStmt:
		return t.ifStmt(s, sc, blk, c, rest(sc))
	case *ast.SwitchStmt:
		return t.switchStmt(s, sc, c, rest(sc))
	case *ast.TypeSwitchStmt:
		return t.typeSwitch(s, sc, c, rest(sc))
	case *ast.RangeStmt:
		return t.rangeStmt(s, sc, blk, c, rest(sc))
	case *ast.ForStmt:
		if !t.pureNode(s, t.trackedNames(sc)) {
			t.refuse(s, "for loop with operations on tracked values")
		}
		t.staleAssigned(s, sc)
		return rest(sc)()
	}
	t.refuse(stmts[0], "statement form %T", stmts[0])
	return nil
}

// ------------------------------------------------------------------------------ simple statements

// what is assigned
type rhsVal struct {
	tv   *tval
	kind int // binding kind when tv == nil
	path []string
	ok   *binding // a template binding (bOk, bTypeOf, bKind)
}

func (t *tr) bindName(lhs ast.Expr, tok token.Token, v rhsVal, sc *scope, blk int, effs *[]eff) *scope {
	id, isId := lhs.(*ast.Ident)
	if !isId {
		if ix, ok := lhs.(*ast.IndexExpr); ok {
			if _, ok := t.tracked(ix.X, sc); ok {
				t.refuse(lhs, "assignment into a tracked map")
			}
		}
		*effs = append(*effs, t.effects(lhs, sc)...)
		if v.tv != nil && v.tv.e.hasAs() {
			*effs = append(*effs, eff{kind: 0, e: v.tv.e})
		}
		return sc
	}
	mk := func() *binding {
		if v.tv != nil {
			return t.trackedBinding(sc, id.Name, *v.tv, blk, true)
		}
		if v.ok != nil {
			b := *v.ok
			b.blk = blk
			return &b
		}
		return &binding{kind: v.kind, path: v.path, blk: blk}
	}
	emit := func(b *binding) {
		if v.tv != nil {
			*effs = append(*effs, eff{kind: 1, x: b.coq, e: v.tv.e})
		}
	}
	if id.Name == "_" {
		if v.tv != nil && v.tv.e.hasAs() {
			*effs = append(*effs, eff{kind: 0, e: v.tv.e})
		}
		return sc
	}
	old := sc.lookup(id.Name)
	if tok == token.DEFINE || tok == token.VAR || (old != nil && old.blk == blk) {
		if tok != token.DEFINE && tok != token.VAR && tok != token.ASSIGN {
			// op-assignment to a local of this block
			if old.kind == bTracked {
				t.refuse(lhs, "%s on a tracked variable", tok)
			}
			return sc
		}
		b := mk()
		emit(b)
		return t.declare(sc, id.Name, b)
	}
	// assignment to a variable of an enclosing block (or of the package)
	if v.tv != nil && v.tv.e.hasAs() {
		*effs = append(*effs, eff{kind: 0, e: v.tv.e})
	}
	if old != nil {
		switch old.kind {
		case bTracked:
			t.markStale(old, "variable "+id.Name+" assigned inside a branch or loop at line "+strconv.Itoa(t.line(lhs)))
		case bEntry:
			t.refuse(lhs, "assignment to the entry parameter")
		default:
			old.kind = bUntracked
		}
	}
	return sc
}

func (t *tr) isPkgCall(e ast.Expr, sc *scope, pkg, fn string) (*ast.CallExpr, bool) {
	c, ok := e.(*ast.CallExpr)
	if !ok {
		return nil, false
	}
	sel, ok := c.Fun.(*ast.SelectorExpr)
	if !ok || sel.Sel.Name != fn {
		return nil, false
	}
	id, ok := sel.X.(*ast.Ident)
	if !ok || id.Name != pkg || sc.lookup(pkg) != nil {
		return nil, false
	}
	return c, true
}

func (t *tr) simple(s ast.Stmt, sc *scope, blk int, c ctx) ([]eff, *scope) {
	var effs []eff
	switch s := s.(type) {
	case *ast.ExprStmt:
		if c, ok := s.X.(*ast.CallExpr); ok {
			if id, ok := c.Fun.(*ast.Ident); ok && id.Name == "delete" && sc.lookup("delete") == nil && len(c.Args) == 2 {
				return t.deleteStmt(c, sc, blk)
			}
		}
		return t.effects(s.X, sc), sc
	case *ast.IncDecStmt:
		if _, ok := t.tracked(s.X, sc); ok {
			t.refuse(s, "%s on a tracked value", s.Tok)
		}
		return t.effects(s.X, sc), sc
	case *ast.DeclStmt:
		gd, ok := s.Decl.(*ast.GenDecl)
		if !ok {
			t.refuse(s, "declaration form")
		}
		for _, sp := range gd.Specs {
			switch sp := sp.(type) {
			case *ast.ValueSpec:
				if len(sp.Values) == 0 {
					for _, n := range sp.Names {
						sc = t.declare(sc, n.Name, &binding{kind: bUntracked, blk: blk})
					}
					continue
				}
				lhs := make([]ast.Expr, len(sp.Names))
				for i, n := range sp.Names {
					lhs[i] = n
				}
				sc = t.assign(lhs, sp.Values, token.VAR, s, sc, blk, c, &effs)
			case *ast.TypeSpec:
				sc = t.declare(sc, sp.Name.Name, &binding{kind: bUntracked, blk: blk})
			}
		}
		return effs, sc
	case *ast.AssignStmt:
		sc = t.assign(s.Lhs, s.Rhs, s.Tok, s, sc, blk, c, &effs)
		return effs, sc
	}
	t.refuse(s, "statement form %T", s)
	return nil, sc
}

func (t *tr) deleteStmt(c *ast.CallExpr, sc *scope, blk int) ([]eff, *scope) {
	id, ok := c.Args[0].(*ast.Ident)
	if !ok {
		if _, ok := t.tracked(c.Args[0], sc); ok {
			t.refuse(c, "delete on a tracked map that is not a variable")
		}
		return append(t.effects(c.Args[0], sc), t.effects(c.Args[1], sc)...), sc
	}
	b := sc.lookup(id.Name)
	if b == nil || b.kind != bTracked {
		return t.effects(c.Args[1], sc), sc
	}
	if b.st != stMap {
		t.refuse(c, "delete on a tracked value that is not a map")
	}
	if b.blk != blk {
		t.refuse(c, "delete on a variable of an enclosing block")
	}
	k, ok := t.strLit(c.Args[1], sc)
	if !ok || !printableASCII(k) {
		t.refuse(c, "delete with a key that is not a string constant")
	}
	tv, _ := t.tracked(id, sc)
	t.use(c, tv)
	ntv := tval{e: &cexpr{op: "del", e: tv.e, k: k}, st: stMap, ojg: b.ojg, root: b.root, from: b}
	nb := t.trackedBinding(sc, id.Name, ntv, blk, true)
	// every other name through which the map (or a container of it) can be reached is stale now
	for _, x := range t.all {
		if x.root == b.root && x != nb && !isDescendant(x, b) {
			t.markStale(x, "delete("+id.Name+", \""+k+"\") at line "+strconv.Itoa(t.line(c))+" modified the value it shares")
		}
	}
	if b.root == 1 || b.root == 2 {
		// the parameters themselves are not in t.all
		t.refuse(c, "delete on a part of the request / response map itself")
	}
	sc = t.declare(sc, id.Name, nb)
	return []eff{{kind: 1, x: nb.coq, e: ntv.e}}, sc
}

func (t *tr) assign(lhs, rhs []ast.Expr, tok token.Token, at ast.Node, sc *scope, blk int, c ctx, effs *[]eff) *scope {
	untr := rhsVal{kind: bUntracked}
	errF := rhsVal{kind: bErrFalse}
	if tok != token.DEFINE && tok != token.ASSIGN && tok != token.VAR {
		// x op= e
		for _, r := range rhs {
			*effs = append(*effs, t.effects(r, sc)...)
		}
		for _, l := range lhs {
			if _, ok := t.tracked(l, sc); ok {
				t.refuse(at, "%s on a tracked value", tok)
			}
		}
		return sc
	}
	if len(rhs) == 1 && len(lhs) == 2 {
		r := unparen(rhs[0])
		if ta, ok := r.(*ast.TypeAssertExpr); ok && ta.Type != nil {
			x, ok := t.tracked(ta.X, sc)
			if !ok {
				t.refuse(at, "comma-ok assertion on a value the translator does not track")
			}
			ty, st, ok := tyOfTypeExpr(t.p.fset, ta.Type)
			if !ok {
				t.refuse(at, "comma-ok assertion to %s", exprString(t.p.fset, ta.Type))
			}
			tmp := sc.fresh("ok@" + strconv.Itoa(t.line(at)))
			tb := &binding{kind: bTracked, coq: tmp, st: stIface, ojg: x.ojg, root: x.root, parent: x.from, stale: x.stale, blk: blk}
			t.all = append(t.all, tb)
			sc = sc.with(tmp, tb)
			*effs = append(*effs, eff{kind: 1, x: tmp, e: x.e})
			xt := tval{e: eVar(tmp), st: stIface, ojg: x.ojg, root: x.root, from: tb, stale: x.stale}
			v := t.asOk(at, xt, ty, st)
			sc = t.bindName(lhs[0], tok, rhsVal{tv: &v}, sc, blk, effs)
			okb := &binding{kind: bOk, okVar: tmp, okTy: ty, coq: tmp + "?"}
			sc = t.bindName(lhs[1], tok, rhsVal{ok: okb}, sc, blk, effs)
			return sc
		}
		if c, ok := t.isPkgCall(r, sc, "json", "Marshal"); ok && len(c.Args) == 1 {
			if x, ok := t.tracked(c.Args[0], sc); ok {
				t.use(at, x)
				v := tval{e: x.e, st: stJSON, root: t.newRoot(), from: nil}
				sc = t.bindName(lhs[0], tok, rhsVal{tv: &v}, sc, blk, effs)
			} else {
				*effs = append(*effs, t.effects(c.Args[0], sc)...)
				sc = t.bindName(lhs[0], tok, untr, sc, blk, effs)
			}
			return t.bindName(lhs[1], tok, errF, sc, blk, effs)
		}
		if c, ok := t.isPkgCall(r, sc, "oj", "ParseString"); ok && len(c.Args) == 1 {
			if x, ok := t.tracked(c.Args[0], sc); ok && x.st == stJSON {
				t.use(at, x)
				v := tval{e: x.e, st: stIface, ojg: true, root: t.newRoot(), from: nil}
				sc = t.bindName(lhs[0], tok, rhsVal{tv: &v}, sc, blk, effs)
				return t.bindName(lhs[1], tok, errF, sc, blk, effs)
			}
			*effs = append(*effs, t.effects(r, sc)...)
			sc = t.bindName(lhs[0], tok, untr, sc, blk, effs)
			return t.bindName(lhs[1], tok, untr, sc, blk, effs)
		}
		if c, ok := t.isPkgCall(r, sc, "jp", "ParseString"); ok && len(c.Args) == 1 {
			p, ok := t.strLit(c.Args[0], sc)
			if !ok || !pathRe.MatchString(p) {
				t.refuse(at, "jp.ParseString of something else than a literal dotted path")
			}
			var ks []string
			cur := ""
			for i := 0; i <= len(p); i++ {
				if i == len(p) || p[i] == '.' {
					ks = append(ks, cur)
					cur = ""
				} else {
					cur += string(p[i])
				}
			}
			sc = t.bindName(lhs[0], tok, rhsVal{kind: bPath, path: ks}, sc, blk, effs)
			return t.bindName(lhs[1], tok, errF, sc, blk, effs)
		}
		if ix, ok := r.(*ast.IndexExpr); ok {
			if _, ok := t.tracked(ix.X, sc); ok {
				t.refuse(at, "comma-ok index of a tracked map")
			}
		}
		*effs = append(*effs, t.effects(r, sc)...)
		sc = t.bindName(lhs[0], tok, untr, sc, blk, effs)
		return t.bindName(lhs[1], tok, untr, sc, blk, effs)
	}
	if len(rhs) == 1 && len(lhs) > 2 {
		*effs = append(*effs, t.effects(rhs[0], sc)...)
		for _, l := range lhs {
			sc = t.bindName(l, tok, untr, sc, blk, effs)
		}
		return sc
	}
	if len(lhs) != len(rhs) {
		t.refuse(at, "assignment form")
	}
	if len(lhs) > 1 {
		for _, r := range rhs {
			if _, ok := t.tracked(r, sc); ok {
				t.refuse(at, "parallel assignment of tracked values")
			}
		}
	}
	if len(lhs) == 1 && tok == token.ASSIGN {
		if id, ok := lhs[0].(*ast.Ident); ok {
			if old := sc.lookup(id.Name); old != nil && c.rebind != nil && c.rebind[old] == blk && blk != 0 {
				if t.rebindTo(old, id.Name, rhs[0], sc, effs) {
					return sc
				}
			}
		}
	}
	for i := range lhs {
		if tb, ok := t.typeOfExpr(rhs[i], sc); ok {
			sc = t.bindName(lhs[i], tok, rhsVal{ok: tb}, sc, blk, effs)
			continue
		}
		if kb, ok := t.kindExpr(rhs[i], sc); ok {
			sc = t.bindName(lhs[i], tok, rhsVal{ok: kb}, sc, blk, effs)
			continue
		}
		if tv, ok := t.tracked(rhs[i], sc); ok {
			tv := tv
			sc = t.bindName(lhs[i], tok, rhsVal{tv: &tv}, sc, blk, effs)
			continue
		}
		*effs = append(*effs, t.effects(rhs[i], sc)...)
		sc = t.bindName(lhs[i], tok, untr, sc, blk, effs)
	}
	return sc
}

// rebindTo: an assignment x = e in a branch of an `if` that stands in the block of x, for e a
// tracked expression, a string constant (x a tracked interface{} / string) or a reflect.Kind the
// translator follows.  The binding is changed in place; ifStmt restores it after the branch.
func (t *tr) rebindTo(old *binding, name string, rhs ast.Expr, sc *scope, effs *[]eff) bool {
	if kb, ok := t.kindExpr(rhs, sc); ok && (old.kind == bUntracked || old.kind == bKind) {
		blk := old.blk
		*old = *kb
		old.blk = blk
		return true
	}
	if old.kind != bTracked {
		return false
	}
	if tv, ok := t.tracked(rhs, sc); ok {
		if tv.st != old.st && old.st != stIface {
			return false
		}
		coq := sc.fresh(name)
		*effs = append(*effs, eff{kind: 1, x: coq, e: tv.e})
		old.coq, old.ojg, old.root, old.parent, old.stale = coq, tv.ojg, tv.root, tv.from, tv.stale
		return true
	}
	if sv, ok := t.strLit(rhs, sc); ok && printableASCII(sv) && (old.st == stIface || old.st == stStr) {
		coq := sc.fresh(name)
		*effs = append(*effs, eff{kind: 1, x: coq, e: &cexpr{op: "str", k: sv}})
		old.coq, old.ojg, old.root, old.parent, old.stale = coq, false, t.newRoot(), nil, ""
		return true
	}
	return false
}

// candidates for rebindTo: variables of block blk assigned at the top level of a branch of s
func (t *tr) rebindable(s *ast.IfStmt, sc *scope, blk int) []*binding {
	var out []*binding
	scan := func(list []ast.Stmt) {
		for _, st := range list {
			as, ok := st.(*ast.AssignStmt)
			if !ok || as.Tok != token.ASSIGN || len(as.Lhs) != 1 || len(as.Rhs) != 1 {
				continue
			}
			id, ok := as.Lhs[0].(*ast.Ident)
			if !ok {
				continue
			}
			old := sc.lookup(id.Name)
			if old == nil || old.blk != blk {
				continue
			}
			switch old.kind {
			case bTracked:
				_, lit := t.strLit(as.Rhs[0], sc)
				mentions := false
				names := t.trackedNames(sc)
				ast.Inspect(as.Rhs[0], func(n ast.Node) bool {
					if x, ok := n.(*ast.Ident); ok && names[x.Name] {
						mentions = true
					}
					return true
				})
				if lit || mentions {
					out = append(out, old)
				}
			case bUntracked, bKind:
				r := exprString(t.p.fset, as.Rhs[0])
				if len(r) > 8 && r[:8] == "reflect." {
					out = append(out, old)
				}
			}
		}
	}
	scan(s.Body.List)
	if el, ok := s.Else.(*ast.BlockStmt); ok {
		scan(el.List)
	}
	return out
}

// ------------------------------------------------------------------------------ conditions

type cond struct {
	kind string // nil ok first streq numeq const untracked
	pos  bool   // the Go then-branch is the first branch of the IR statement
	e    *cexpr
	okB  *binding
	x    tval
	name string
	s    string
	z    int64
	val  bool
	effs []eff
}

func (t *tr) lenOf(e ast.Expr, sc *scope) (*ast.Ident, tval, bool) {
	c, ok := unparen(e).(*ast.CallExpr)
	if !ok || len(c.Args) != 1 {
		return nil, tval{}, false
	}
	f, ok := c.Fun.(*ast.Ident)
	if !ok || f.Name != "len" || sc.lookup("len") != nil {
		return nil, tval{}, false
	}
	id, ok := unparen(c.Args[0]).(*ast.Ident)
	if !ok {
		return nil, tval{}, false
	}
	x, ok := t.tracked(id, sc)
	if !ok || x.st != stSlice {
		return nil, tval{}, false
	}
	return id, x, true
}

// len(x) for x the JSON text (json.Marshal) of a tracked value
func (t *tr) lenOfJSON(e ast.Expr, sc *scope) bool {
	c, ok := unparen(e).(*ast.CallExpr)
	if !ok || len(c.Args) != 1 {
		return false
	}
	f, ok := c.Fun.(*ast.Ident)
	if !ok || f.Name != "len" || sc.lookup("len") != nil {
		return false
	}
	x, ok := t.tracked(c.Args[0], sc)
	return ok && x.st == stJSON
}

func (t *tr) classify(e ast.Expr, sc *scope) cond {
	e = unparen(e)
	switch e := e.(type) {
	case *ast.UnaryExpr:
		if e.Op == token.NOT {
			c := t.classify(e.X, sc)
			if c.kind == "const" {
				c.val = !c.val
			} else if c.kind != "untracked" {
				c.pos = !c.pos
			}
			return c
		}
	case *ast.Ident:
		if b := sc.lookup(e.Name); b != nil {
			if b.kind == bOk {
				return cond{kind: "ok", pos: true, okB: b}
			}
		} else if e.Name == "true" || e.Name == "false" {
			return cond{kind: "const", val: e.Name == "true"}
		}
	case *ast.BinaryExpr:
		if e.Op == token.EQL || e.Op == token.NEQ {
			eq := e.Op == token.EQL
			for _, pr := range [][2]ast.Expr{{e.X, e.Y}, {e.Y, e.X}} {
				a, o := pr[0], pr[1]
				if isNilIdent(o) && sc.lookup("nil") == nil {
					if id, ok := unparen(a).(*ast.Ident); ok {
						if b := sc.lookup(id.Name); b != nil && b.kind == bErrFalse {
							return cond{kind: "const", val: eq}
						}
					}
					if tb, ok := t.typeOfExpr(a, sc); ok {
						// reflect.TypeOf(x) == nil iff x == nil
						return cond{kind: "nil", pos: eq, e: eVar(tb.symVar)}
					}
					if x, ok := t.tracked(a, sc); ok {
						if x.st == stStr || x.st == stNum || x.st == stBool || x.st == stJSON {
							t.refuse(e, "nil comparison of a tracked value that cannot be nil")
						}
						t.use(e, x)
						return cond{kind: "nil", pos: eq, e: x.e}
					}
				}
				if x, ok := t.tracked(a, sc); ok {
					if s, ok := t.strLit(o, sc); ok && x.st == stStr && printableASCII(s) {
						t.use(e, x)
						return cond{kind: "streq", pos: eq, e: x.e, s: s}
					}
					if z, ok := t.intLit(o, sc); ok && x.st == stNum {
						t.use(e, x)
						return cond{kind: "numeq", pos: eq, e: x.e, z: z}
					}
					if s, ok := t.strLit(o, sc); ok && x.st == stIface && printableASCII(s) {
						// an interface{} compared with a string: false (no panic) when it holds no string
						t.use(e, x)
						return cond{kind: "ifacestr", pos: eq, e: x.e, s: s, name: strconv.Itoa(t.line(e))}
					}
				}
				if t.lenOfJSON(a, sc) {
					if z, ok := t.intLit(o, sc); ok && z == 0 {
						return cond{kind: "const", val: !eq} // the JSON text of a value is never empty
					}
				}
				if id, x, ok := t.lenOf(a, sc); ok {
					if z, ok := t.intLit(o, sc); ok && z == 0 {
						t.use(e, x)
						return cond{kind: "first", pos: !eq, x: x, name: id.Name}
					}
				}
			}
		}
		if e.Op == token.GTR || e.Op == token.GEQ || e.Op == token.LSS || e.Op == token.LEQ {
			// normalise to len(x) OP n
			a, o, op := e.X, e.Y, e.Op
			if _, _, ok := t.lenOf(a, sc); !ok && !t.lenOfJSON(a, sc) {
				a, o = o, a
				switch op {
				case token.GTR:
					op = token.LSS
				case token.GEQ:
					op = token.LEQ
				case token.LSS:
					op = token.GTR
				case token.LEQ:
					op = token.GEQ
				}
			}
			if t.lenOfJSON(a, sc) {
				if z, ok := t.intLit(o, sc); ok {
					switch {
					case op == token.GTR && z == 0, op == token.GEQ && z == 1:
						return cond{kind: "const", val: true}
					case op == token.LSS && z == 1, op == token.LEQ && z == 0:
						return cond{kind: "const", val: false}
					}
				}
			}
			if id, x, ok := t.lenOf(a, sc); ok {
				if z, ok := t.intLit(o, sc); ok {
					nonEmpty, known := false, true
					switch {
					case op == token.GTR && z == 0, op == token.GEQ && z == 1:
						nonEmpty = true
					case op == token.LSS && z == 1, op == token.LEQ && z == 0:
						nonEmpty = false
					default:
						known = false
					}
					if known {
						t.use(e, x)
						return cond{kind: "first", pos: nonEmpty, x: x, name: id.Name}
					}
				}
			}
		}
	}
	return cond{kind: "untracked", effs: t.effects(e, sc)}
}

func (t *tr) branch(at ast.Node, cd cond, sc *scope, thenF, elseF func(sc *scope) *cstmt) *cstmt {
	pick := func(first bool) func(sc *scope) *cstmt {
		if first == cd.pos {
			return thenF
		}
		return elseF
	}
	switch cd.kind {
	case "const":
		if cd.val {
			return thenF(sc)
		}
		return elseF(sc)
	case "nil":
		a := pick(true)(sc)
		nsc := sc
		if cd.e.op == "var" {
			nsc = sc.with("nonnil:"+cd.e.x, &binding{kind: bUntracked})
		}
		b := pick(false)(nsc)
		return &cstmt{op: "ifnil", e: cd.e, a: a, b: b}
	case "ifacestr":
		tmp := sc.fresh("str@" + cd.name)
		a := pick(true)(sc)
		b := pick(false)(sc)
		b2 := pick(false)(sc)
		return &cstmt{op: "ifok", x: tmp, e: cd.e, t: "TyStr", a: &cstmt{op: "ifstr", e: eVar(tmp), s: cd.s, a: a, b: b}, b: b2}
	case "ok":
		a := pick(true)(sc)
		b := pick(false)(sc)
		return &cstmt{op: "ifok", x: "_", e: eVar(cd.okB.okVar), t: cd.okB.okTy, a: a, b: b}
	case "streq":
		return &cstmt{op: "ifstr", e: cd.e, s: cd.s, a: pick(true)(sc), b: pick(false)(sc)}
	case "numeq":
		return &cstmt{op: "ifnum", e: cd.e, z: cd.z, a: pick(true)(sc), b: pick(false)(sc)}
	case "first":
		fb := t.trackedBinding(sc, cd.name+"[0]", tval{st: stIface, ojg: cd.x.ojg, root: cd.x.root, from: cd.x.from}, t.nblk, false)
		t.all = append(t.all, fb)
		sc1 := sc.with(cd.name+"[0]", fb)
		a := pick(true)(sc1)
		b := pick(false)(sc)
		return &cstmt{op: "first", x: fb.coq, e: cd.x.e, a: a, b: b}
	}
	a := simplify(thenF(sc))
	b := simplify(elseF(sc))
	if !sameStmt(a, b) {
		t.refuse(at, "a condition on untracked data guards operations on tracked values")
	}
	return seqEffs(cd.effs, func() *cstmt { return a })
}

func (t *tr) ifStmt(s *ast.IfStmt, sc *scope, blk int, c ctx, rest func() *cstmt) *cstmt {
	reb := t.rebindable(s, sc, blk)
	exits := hasExit(s.Body) || (s.Else != nil && hasExit(s.Else)) || len(reb) > 0
	kb := skipK
	if exits {
		kb = rest
	}
	// a branch may re-bind the variables in reb (in place); they are restored after it
	inBranch := func(list []ast.Stmt, sc2 *scope) *cstmt {
		b := t.newBlk()
		c2 := c
		if len(reb) > 0 {
			c2.rebind = map[*binding]int{}
			for k, v := range c.rebind {
				c2.rebind[k] = v
			}
			for _, x := range reb {
				c2.rebind[x] = b
			}
		}
		saved := make([]binding, len(reb))
		for i, x := range reb {
			saved[i] = *x
		}
		r := t.list(list, sc2, b, c2, kb)
		for i, x := range reb {
			*x = saved[i]
		}
		return r
	}
	thenF := func(sc2 *scope) *cstmt { return inBranch(s.Body.List, sc2) }
	elseF := func(sc2 *scope) *cstmt {
		switch el := s.Else.(type) {
		case nil:
			return kb()
		case *ast.BlockStmt:
			return inBranch(el.List, sc2)
		default:
			return t.list([]ast.Stmt{el}, sc2, t.newBlk(), c, kb)
		}
	}
	finish := func(r *cstmt) *cstmt {
		if exits {
			return r
		}
		return seq(r, rest())
	}
	// if v, ok := x.(T); ok { ... } else { ... }
	if as, ok := s.Init.(*ast.AssignStmt); ok && as.Tok == token.DEFINE && len(as.Lhs) == 2 && len(as.Rhs) == 1 {
		if ta, ok := unparen(as.Rhs[0]).(*ast.TypeAssertExpr); ok && ta.Type != nil {
			okId, ok1 := as.Lhs[1].(*ast.Ident)
			vId, ok2 := as.Lhs[0].(*ast.Ident)
			cid, ok3 := unparen(s.Cond).(*ast.Ident)
			neg := false
			if u, ok := unparen(s.Cond).(*ast.UnaryExpr); ok && u.Op == token.NOT {
				cid, ok3 = unparen(u.X).(*ast.Ident)
				neg = true
			}
			if ok1 && ok2 && ok3 && okId.Name != "_" && cid.Name == okId.Name {
				if x, ok := t.tracked(ta.X, sc); ok {
					ty, st, ok := tyOfTypeExpr(t.p.fset, ta.Type)
					if !ok {
						t.refuse(s, "comma-ok assertion to %s", exprString(t.p.fset, ta.Type))
					}
					if x.st != stIface {
						t.refuse(s, "comma-ok assertion on a tracked value that is not an interface{}")
					}
					if x.ojg && ty == "TyNum" {
						t.refuse(s, "float64 assertion on a value parsed by ojg")
					}
					t.use(s, x)
					blk := t.newBlk()
					vb := t.trackedBinding(sc, vId.Name, tval{st: st, ojg: x.ojg, root: x.root, from: x.from}, blk, true)
					sc2 := t.declare(sc, vId.Name, vb)
					sc2 = sc2.with(okId.Name, &binding{kind: bUntracked, blk: blk})
					var a, b *cstmt
					if !neg {
						a, b = thenF(sc2), elseF(sc2)
					} else {
						b, a = thenF(sc2), elseF(sc2)
					}
					return finish(&cstmt{op: "ifok", x: vb.coq, e: x.e, t: ty, a: a, b: b})
				}
			}
		}
	}
	isc := sc
	var initEffs []eff
	if s.Init != nil {
		initEffs, isc = t.simple(s.Init, sc, t.newBlk(), ctx{})
	}
	r := seqEffs(initEffs, func() *cstmt {
		cd := t.classify(s.Cond, isc)
		return t.branch(s, cd, isc, thenF, elseF)
	})
	return finish(r)
}

// ------------------------------------------------------------------------------ switch

func clauseBody(cl *ast.CaseClause) ([]ast.Stmt, bool) {
	if n := len(cl.Body); n > 0 {
		if b, ok := cl.Body[n-1].(*ast.BranchStmt); ok && b.Tok == token.FALLTHROUGH {
			return cl.Body[:n-1], true
		}
	}
	return cl.Body, false
}

func (t *tr) switchStmt(s *ast.SwitchStmt, sc *scope, c ctx, rest func() *cstmt) *cstmt {
	exits := false
	for _, cc := range s.Body.List {
		for _, st := range cc.(*ast.CaseClause).Body {
			if hasExit(st) {
				exits = true
			}
		}
	}
	kAfter := skipK
	if exits {
		kAfter = rest
	}
	c2 := c
	c2.brk = kAfter
	finish := func(r *cstmt) *cstmt {
		if exits {
			return r
		}
		return seq(r, rest())
	}
	isc := sc
	var initEffs []eff
	if s.Init != nil {
		initEffs, isc = t.simple(s.Init, sc, t.newBlk(), ctx{})
	}
	if s.Tag == nil {
		t.refuse(s, "switch without a tag")
	}
	var cases []*ast.CaseClause
	var def *ast.CaseClause
	for _, cc := range s.Body.List {
		cl := cc.(*ast.CaseClause)
		if cl.List == nil {
			def = cl
		} else {
			cases = append(cases, cl)
		}
	}
	body := func(cl *ast.CaseClause, allowFall bool) *cstmt {
		b, fall := clauseBody(cl)
		if fall && !allowFall {
			t.refuse(cl, "fallthrough in a switch on a tracked value")
		}
		return t.list(b, isc, t.newBlk(), c2, kAfter)
	}
	r := seqEffs(initEffs, func() *cstmt {
		if kb, ok := t.kindExpr(s.Tag, isc); ok {
			return t.kindSwitch(s, kb, cases, def, isc, c2, kAfter)
		}
		tv, ok := t.tracked(s.Tag, isc)
		if !ok {
			// a switch on untracked data: every way through it must do the same to tracked values
			effs := t.effects(s.Tag, isc)
			ref := simplify(kAfter())
			if def == nil && false {
				_ = ref
			}
			for _, cl := range append(append([]*ast.CaseClause{}, cases...), def) {
				if cl == nil {
					continue
				}
				for _, e := range cl.List {
					if len(t.effects(e, isc)) > 0 {
						t.refuse(e, "case expression with tracked operations")
					}
				}
				if !sameStmt(simplify(body(cl, true)), ref) {
					t.refuse(cl, "a switch on untracked data guards operations on tracked values")
				}
			}
			return seqEffs(effs, func() *cstmt { return ref })
		}
		if tv.st != stStr && tv.st != stNum {
			t.refuse(s, "switch on a tracked value that is neither a string nor a number")
		}
		t.use(s, tv)
		tag := tv.e
		var pre []eff
		if tag.op != "var" {
			tmp := isc.fresh("switch@" + strconv.Itoa(t.line(s)))
			pre = append(pre, eff{kind: 1, x: tmp, e: tag})
			tag = eVar(tmp)
		}
		var chain func(i int) *cstmt
		chain = func(i int) *cstmt {
			if i == len(cases) {
				if def != nil {
					return body(def, false)
				}
				return kAfter()
			}
			cl := cases[i]
			var lit func(j int) *cstmt
			lit = func(j int) *cstmt {
				if j == len(cl.List) {
					return chain(i + 1)
				}
				if tv.st == stStr {
					sv, ok := t.strLit(cl.List[j], isc)
					if !ok || !printableASCII(sv) {
						t.refuse(cl.List[j], "case value that is not a resolvable string constant")
					}
					a := body(cl, false)
					return &cstmt{op: "ifstr", e: tag, s: sv, a: a, b: lit(j + 1)}
				}
				z, ok := t.intLit(cl.List[j], isc)
				if !ok {
					t.refuse(cl.List[j], "case value that is not a resolvable integer constant")
				}
				a := body(cl, false)
				return &cstmt{op: "ifnum", e: tag, z: z, a: a, b: lit(j + 1)}
			}
			return lit(0)
		}
		return seqEffs(pre, func() *cstmt { return chain(0) })
	})
	return finish(r)
}

// a switch on a reflect.Kind the translator follows: a constant selects its clause; the kind of
// a non-nil decoded JSON value is Bool / Float64 / String / Slice / Map according to its type, so
// each clause is a dynamic type test (SIfOk); fallthrough continues with the next clause's body
func (t *tr) kindSwitch(s *ast.SwitchStmt, kb *binding, cases []*ast.CaseClause, def *ast.CaseClause, sc *scope, c ctx, kAfter func() *cstmt) *cstmt {
	var order []*ast.CaseClause
	for _, cc := range s.Body.List {
		order = append(order, cc.(*ast.CaseClause))
	}
	var bodyOf func(cl *ast.CaseClause) []ast.Stmt
	bodyOf = func(cl *ast.CaseClause) []ast.Stmt {
		b, fall := clauseBody(cl)
		if !fall {
			return b
		}
		for i, x := range order {
			if x == cl && i+1 < len(order) {
				return append(append([]ast.Stmt{}, b...), bodyOf(order[i+1])...)
			}
		}
		t.refuse(cl, "fallthrough in the last clause")
		return nil
	}
	kindsOf := func(cl *ast.CaseClause) []string {
		var out []string
		for _, e := range cl.List {
			k, ok := t.kindExpr(e, sc)
			if !ok || k.kconst == "" {
				t.refuse(e, "case of a switch on a reflect.Kind that is not a reflect constant")
			}
			out = append(out, k.kconst)
		}
		return out
	}
	run := func(cl *ast.CaseClause) *cstmt { return t.list(bodyOf(cl), sc, t.newBlk(), c, kAfter) }
	if kb.kconst != "" {
		for _, cl := range cases {
			for _, k := range kindsOf(cl) {
				if k == kb.kconst {
					return run(cl)
				}
			}
		}
		if def != nil {
			return run(def)
		}
		return kAfter()
	}
	vb := kb.symFrom
	if vb == nil || vb.coq != kb.symVar || vb.stale != "" {
		t.refuse(s, "switch on the kind of a variable that has changed since")
	}
	t.reads = append(t.reads, vb)
	var chain func(i int, tys []string) *cstmt
	chain = func(i int, tys []string) *cstmt {
		if len(tys) == 0 {
			if i >= len(cases) {
				if def != nil {
					return run(def)
				}
				return kAfter()
			}
			var next []string
			for _, k := range kindsOf(cases[i]) {
				if ty := reflectKinds[k]; ty != "" {
					next = append(next, ty)
				}
			}
			if len(next) == 0 {
				return chain(i+1, nil) // no decoded value has one of these kinds
			}
			return chainTy(t, cases[i], next, vb, kb, run, func() *cstmt { return chain(i+1, nil) })
		}
		return nil
	}
	return chain(0, nil)
}

func chainTy(t *tr, cl *ast.CaseClause, tys []string, vb, kb *binding, run func(*ast.CaseClause) *cstmt, next func() *cstmt) *cstmt {
	if len(tys) == 0 {
		return next()
	}
	ty := tys[0]
	if kb.symOjg && ty == "TyNum" {
		t.refuse(cl, "reflect.Float64 case on a value parsed by ojg")
	}
	// inside the clause the variable is known to have the type: it is re-bound (in place) to the tested value
	saved := *vb
	orig := vb.coq
	vb.coq = orig + "'" + ty[2:]
	name := vb.coq
	a := run(cl)
	*vb = saved
	b := chainTy(t, cl, tys[1:], vb, kb, run, next)
	return &cstmt{op: "ifok", x: name, e: eVar(orig), t: ty, a: a, b: b}
}

func (t *tr) typeSwitch(s *ast.TypeSwitchStmt, sc *scope, c ctx, rest func() *cstmt) *cstmt {
	exits := false
	for _, cc := range s.Body.List {
		for _, st := range cc.(*ast.CaseClause).Body {
			if hasExit(st) {
				exits = true
			}
		}
	}
	kAfter := skipK
	if exits {
		kAfter = rest
	}
	c2 := c
	c2.brk = kAfter
	isc := sc
	var initEffs []eff
	if s.Init != nil {
		initEffs, isc = t.simple(s.Init, sc, t.newBlk(), ctx{})
	}
	var vname string
	var ta *ast.TypeAssertExpr
	switch a := s.Assign.(type) {
	case *ast.ExprStmt:
		ta, _ = unparen(a.X).(*ast.TypeAssertExpr)
	case *ast.AssignStmt:
		if len(a.Lhs) == 1 && len(a.Rhs) == 1 {
			if id, ok := a.Lhs[0].(*ast.Ident); ok {
				vname = id.Name
			}
			ta, _ = unparen(a.Rhs[0]).(*ast.TypeAssertExpr)
		}
	}
	if ta == nil {
		t.refuse(s, "type switch form")
	}
	r := seqEffs(initEffs, func() *cstmt {
		x, ok := t.tracked(ta.X, isc)
		if !ok {
			t.refuse(s, "type switch on a value the translator does not track")
		}
		if x.st != stIface {
			t.refuse(s, "type switch on a tracked value that is not an interface{}")
		}
		t.use(s, x)
		tag := x.e
		var pre []eff
		from := x.from
		if tag.op != "var" {
			tmp := isc.fresh("switch@" + strconv.Itoa(t.line(s)))
			pre = append(pre, eff{kind: 1, x: tmp, e: tag})
			tag = eVar(tmp)
		}
		var cases []*ast.CaseClause
		var def *ast.CaseClause
		for _, cc := range s.Body.List {
			cl := cc.(*ast.CaseClause)
			if cl.List == nil {
				def = cl
			} else {
				cases = append(cases, cl)
			}
		}
		bodyWith := func(cl *ast.CaseClause, st int) (string, *cstmt) {
			if _, fall := clauseBody(cl); fall {
				t.refuse(cl, "fallthrough in a type switch")
			}
			blk := t.newBlk()
			bsc := isc
			coq := "_"
			if vname != "" && vname != "_" {
				vb := t.trackedBinding(isc, vname, tval{st: st, ojg: x.ojg, root: x.root, from: from}, blk, true)
				bsc = t.declare(isc, vname, vb)
				coq = vb.coq
			}
			return coq, t.list(cl.Body, bsc, blk, c2, kAfter)
		}
		var chain func(i int) *cstmt
		chain = func(i int) *cstmt {
			if i == len(cases) {
				if def != nil {
					coq, b := bodyWith(def, stIface)
					if coq == "_" {
						return b
					}
					return &cstmt{op: "let", x: coq, e: tag, a: b}
				}
				return kAfter()
			}
			cl := cases[i]
			if len(cl.List) != 1 {
				t.refuse(cl, "type switch case with several types")
			}
			if isNilIdent(cl.List[0]) {
				coq, b := bodyWith(cl, stIface)
				if coq != "_" {
					b = &cstmt{op: "let", x: coq, e: tag, a: b}
				}
				return &cstmt{op: "ifnil", e: tag, a: b, b: chain(i + 1)}
			}
			ty, st, ok := tyOfTypeExpr(t.p.fset, cl.List[0])
			if !ok {
				t.refuse(cl, "type switch case %s (not a type encoding/json produces)", exprString(t.p.fset, cl.List[0]))
			}
			if x.ojg && ty == "TyNum" {
				t.refuse(cl, "float64 case on a value parsed by ojg")
			}
			coq, b := bodyWith(cl, st)
			return &cstmt{op: "ifok", x: coq, e: tag, t: ty, a: b, b: chain(i + 1)}
		}
		return seqEffs(pre, func() *cstmt { return chain(0) })
	})
	if exits {
		return r
	}
	return seq(r, rest())
}

// ------------------------------------------------------------------------------ range

// `for k := range m { keys = append(keys, k) }` for a tracked map variable m and a []string of the
// same block: keys holds exactly the keys of m
func (t *tr) keyCollector(s *ast.RangeStmt, x tval, sc *scope, blk int) bool {
	if s.Value != nil || s.Key == nil || s.Tok != token.DEFINE || len(s.Body.List) != 1 || x.e.op != "var" || x.from == nil {
		return false
	}
	k, ok := s.Key.(*ast.Ident)
	mid, ok2 := unparen(s.X).(*ast.Ident)
	as, ok3 := s.Body.List[0].(*ast.AssignStmt)
	if !ok || !ok2 || !ok3 || as.Tok != token.ASSIGN || len(as.Lhs) != 1 || len(as.Rhs) != 1 {
		return false
	}
	dst, ok := as.Lhs[0].(*ast.Ident)
	call, ok2 := as.Rhs[0].(*ast.CallExpr)
	if !ok || !ok2 || len(call.Args) != 2 {
		return false
	}
	f, ok := call.Fun.(*ast.Ident)
	a0, ok2 := call.Args[0].(*ast.Ident)
	a1, ok3 := call.Args[1].(*ast.Ident)
	if !ok || !ok2 || !ok3 || f.Name != "append" || sc.lookup("append") != nil || a0.Name != dst.Name || a1.Name != k.Name {
		return false
	}
	kb := sc.lookup(dst.Name)
	if kb == nil || kb.kind != bUntracked || kb.blk != blk {
		return false
	}
	kb.kind, kb.symVar, kb.symFrom, kb.symName, kb.symOjg = bKeys, x.e.x, x.from, mid.Name, x.ojg
	return true
}

// `for _, key := range keys` for keys as above: a loop over the map (the order - the keys may have
// been sorted - is not modelled); inside, m[key] is the value
func (t *tr) keysRange(s *ast.RangeStmt, kb *binding, sc *scope, rest func() *cstmt) *cstmt {
	mb := sc.lookup(kb.symName)
	if mb == nil || mb != kb.symFrom || mb.stale != "" || mb.coq != kb.symVar || mb.st != stMap {
		t.refuse(s, "range over the collected keys of a map that has changed since")
	}
	if s.Tok != token.DEFINE || s.Value == nil {
		t.refuse(s, "range over the collected keys of a map without a value variable")
	}
	vid, ok := s.Value.(*ast.Ident)
	if !ok || vid.Name == "_" {
		t.refuse(s, "range over the collected keys of a map without a value variable")
	}
	r0, s0 := len(t.reads), len(t.stales)
	t.reads = append(t.reads, mb)
	blk := t.newBlk()
	bsc := sc
	if kid, ok := s.Key.(*ast.Ident); ok && kid.Name != "_" {
		bsc = t.declare(bsc, kid.Name, &binding{kind: bUntracked, blk: blk})
	}
	keyb := t.trackedBinding(bsc, vid.Name, tval{st: stStr, root: t.newRoot()}, blk, false)
	bsc = t.declare(bsc, vid.Name, keyb)
	idx := kb.symName + "[" + vid.Name + "]"
	valb := t.trackedBinding(bsc, idx, tval{st: stIface, ojg: mb.ojg, root: mb.root, from: mb}, blk, false)
	bsc = t.declare(bsc, idx, valb)
	body := t.list(s.Body.List, bsc, blk, ctx{cont: skipK, noReturn: true}, skipK)
	for _, b := range t.stales[s0:] {
		if b.blk >= blk {
			continue
		}
		for _, r := range t.reads[r0:] {
			if r == b {
				t.refuse(s, "the loop body reads a variable it invalidates for the next iteration (%s)", b.stale)
			}
		}
	}
	return seq(&cstmt{op: "forobj", x: keyb.coq, y: valb.coq, e: eVar(mb.coq), a: body}, rest())
}

func (t *tr) rangeStmt(s *ast.RangeStmt, sc *scope, lblk int, c ctx, rest func() *cstmt) *cstmt {
	if id, ok := unparen(s.X).(*ast.Ident); ok {
		if kb := sc.lookup(id.Name); kb != nil && kb.kind == bKeys {
			return t.keysRange(s, kb, sc, rest)
		}
	}
	x, ok := t.tracked(s.X, sc)
	if ok && x.st == stMap && t.keyCollector(s, x, sc, lblk) {
		t.use(s, x)
		return rest()
	}
	if !ok {
		if !t.pureNode(s.Body, t.trackedNames(sc)) {
			t.refuse(s, "loop over untracked data with operations on tracked values")
		}
		t.staleAssigned(s, sc)
		return seqEffs(t.effects(s.X, sc), rest)
	}
	if (s.Key != nil || s.Value != nil) && s.Tok != token.DEFINE {
		t.refuse(s, "range assigning to existing variables")
	}
	name := func(e ast.Expr) string {
		if e == nil {
			return "_"
		}
		id, ok := e.(*ast.Ident)
		if !ok {
			t.refuse(s, "range variable form")
		}
		return id.Name
	}
	t.use(s, x)
	r0, s0 := len(t.reads), len(t.stales)
	blk := t.newBlk()
	bsc := sc
	var loop *cstmt
	lc := ctx{brk: nil, cont: skipK, noReturn: true}
	switch x.st {
	case stSlice:
		if kn := name(s.Key); kn != "_" {
			bsc = t.declare(bsc, kn, &binding{kind: bUntracked, blk: blk})
		}
		vn := name(s.Value)
		vb := t.trackedBinding(bsc, vn, tval{st: stIface, ojg: x.ojg, root: x.root, from: x.from}, blk, false)
		bsc = t.declare(bsc, vn, vb)
		body := t.list(s.Body.List, bsc, blk, lc, skipK)
		loop = &cstmt{op: "forarr", x: vb.coq, e: x.e, a: body}
	case stMap:
		kn, vn := name(s.Key), name(s.Value)
		kb := t.trackedBinding(bsc, kn, tval{st: stStr, root: t.newRoot()}, blk, false)
		bsc = t.declare(bsc, kn, kb)
		vb := t.trackedBinding(bsc, vn, tval{st: stIface, ojg: x.ojg, root: x.root, from: x.from}, blk, false)
		bsc = t.declare(bsc, vn, vb)
		if kb.coq == vb.coq {
			vb.coq = "_v"
		}
		body := t.list(s.Body.List, bsc, blk, lc, skipK)
		loop = &cstmt{op: "forobj", x: kb.coq, y: vb.coq, e: x.e, a: body}
	default:
		if !t.pureNode(s.Body, t.trackedNames(sc)) {
			t.refuse(s, "range over a tracked value that is neither a slice nor a map")
		}
		t.staleAssigned(s, sc)
		return rest()
	}
	// what the body made stale and was declared outside it is stale in the next iteration too
	for _, b := range t.stales[s0:] {
		if b.blk >= blk {
			continue
		}
		for _, r := range t.reads[r0:] {
			if r == b {
				t.refuse(s, "the loop body reads a variable it invalidates for the next iteration (%s)", b.stale)
			}
		}
	}
	return seq(loop, rest())
}

// code that is skipped as a whole (a loop or function literal without operations on tracked values)
// may still assign to tracked variables: they are not followed any more
func (t *tr) staleAssigned(n ast.Node, sc *scope) {
	mark := func(e ast.Expr) {
		if id, ok := e.(*ast.Ident); ok {
			if b := sc.lookup(id.Name); b != nil && b.kind == bTracked {
				t.markStale(b, "variable "+id.Name+" assigned in skipped code at line "+strconv.Itoa(t.line(e)))
			} else if b != nil && (b.kind == bErrFalse || b.kind == bOk || b.kind == bPath) {
				b.kind = bUntracked
			}
		}
	}
	ast.Inspect(n, func(x ast.Node) bool {
		switch s := x.(type) {
		case *ast.AssignStmt:
			if s.Tok != token.DEFINE {
				for _, l := range s.Lhs {
					mark(l)
				}
			}
		case *ast.IncDecStmt:
			mark(s.X)
		case *ast.RangeStmt:
			if s.Tok == token.ASSIGN {
				mark(s.Key)
				mark(s.Value)
			}
		case *ast.UnaryExpr:
			if s.Op == token.AND {
				mark(s.X) // address taken
			}
		}
		return true
	})
}

// ------------------------------------------------------------------------------ the stage functions

func (t *tr) stageFunc(stage string) *cstmt {
	fd := t.p.methods[stage]
	if fd == nil {
		panic(refusal{"method " + stage + " not found in main.go / helpers.go"})
	}
	t.stack = []string{stage}
	t.nroot = 2
	blk := t.newBlk()
	var sc *scope
	if fd.Recv != nil {
		for _, f := range fd.Recv.List {
			for _, n := range f.Names {
				sc = sc.with(n.Name, &binding{kind: bUntracked, blk: blk})
			}
		}
	}
	var names []string
	var types []string
	for _, f := range fd.Type.Params.List {
		for _, n := range f.Names {
			names = append(names, n.Name)
			types = append(types, exprString(t.p.fset, f.Type))
		}
	}
	switch stage {
	case "Summarize":
		if len(names) != 1 || types[0] != "*api.Entry" {
			t.refuse(fd, "Summarize does not take one *api.Entry")
		}
		sc = sc.with(names[0], &binding{kind: bEntry, blk: blk})
	case "Represent":
		if len(names) != 2 || types[0] != "map[string]interface{}" || types[1] != "map[string]interface{}" {
			t.refuse(fd, "Represent does not take two map[string]interface{}")
		}
		for i, coq := range []string{"request", "response"} {
			sc = sc.with(names[i], &binding{kind: bTracked, coq: coq, st: stMap, root: i + 1, blk: blk})
		}
	}
	if fd.Type.Results != nil {
		for _, f := range fd.Type.Results.List {
			for _, n := range f.Names {
				sc = sc.with(n.Name, &binding{kind: bUntracked, blk: blk})
			}
		}
	}
	return t.list(fd.Body.List, sc, blk, ctx{}, skipK)
}
