package main

// Stage programs (C11): go/ast over pkg/extensions/{redis,amqp,kafka}/{main.go,helpers.go}.
// For each extension the functions Summarize and Represent (helpers inlined) are translated into
// the access-program language of coq/Shape/Access.v: what they do to the request / response maps
// (index, type assertion, nil test, range, switch on a tag), in evaluation order.  Constructs the
// translator cannot render faithfully are refused and listed in `untranslated`, never guessed.

import (
	"fmt"
	"go/ast"
	"go/parser"
	"go/token"
	"path/filepath"
	"regexp"
	"sort"
	"strconv"
	"strings"

	"verif/harness/kty"
)

func init() {
	register("StagesSrc.v", translateStages)
	register("StagesSrc.json", translateStagesJSON)
}

var stageExts = []string{"redis", "amqp", "kafka", "http", "dns"}

// the files whose functions are translated (Summarize, Represent and the helpers they reach)
var stageFilesOf = map[string][]string{"redis": {"main.go", "helpers.go"}, "amqp": {"main.go", "helpers.go"}, "kafka": {"main.go", "helpers.go"},
	"http": {"main.go", "helpers.go"}, "dns": {"main.go"}}

// static Go type of a tracked expression
const (
	stIface = iota
	stMap
	stSlice
	stStr
	stNum
	stBool
	stJSON // []byte / string holding the JSON text of a tracked value
)

// kinds of local names
const (
	bUntracked = iota
	bTracked
	bPath     // result of jp.ParseString of a literal
	bOk       // the ok of  v, ok := x.(T)
	bErrFalse // err of json.Marshal / oj.ParseString / jp.ParseString: taken as nil
	bEntry    // the *api.Entry parameter of Summarize
	bTypeOf   // reflect.TypeOf(x) of a tracked interface{} variable x
	bKind     // a reflect.Kind: a constant, or the kind of a tracked non-nil variable
	bKeys     // a []string holding exactly the keys of a tracked map (collected by a range)
)

// reflect kinds and the JSON type a decoded value of that kind has ("" : no decoded value has it)
var reflectKinds = map[string]string{"Invalid": "", "Bool": "TyBool", "Int": "", "Int8": "", "Int16": "", "Int32": "", "Int64": "", "Uint": "",
	"Uint8": "", "Uint16": "", "Uint32": "", "Uint64": "", "Uintptr": "", "Float32": "", "Float64": "TyNum", "Complex64": "", "Complex128": "",
	"Array": "", "Chan": "", "Func": "", "Interface": "", "Map": "TyObj", "Ptr": "", "Pointer": "", "Slice": "TyArr", "String": "TyStr",
	"Struct": "", "UnsafePointer": ""}

var tyStatic = map[string]int{"TyBool": stBool, "TyNum": stNum, "TyStr": stStr, "TyArr": stSlice, "TyObj": stMap}

type binding struct {
	kind     int
	coq      string
	st       int
	ojg      bool
	root     int
	parent   *binding
	stale    string // non-empty: the model's value no longer reflects the Go variable
	blk      int    // Go block instance the name was declared in
	path     []string
	okVar    string
	okTy     string
	okOjg    bool
	okParent *binding
	okRoot   int
	kconst   string // bKind: the constant's name, or ""
	symVar   string // bTypeOf / bKind / bKeys: Coq name of the variable it was taken from
	symOjg   bool
	symFrom  *binding // that variable
	symName  string   // its Go name
}

// immutable scope chain; boundary nodes stop name resolution (inlined callee) but not the
// search for live Coq names
type scope struct {
	name     string
	b        *binding
	parent   *scope
	boundary bool
}

func (sc *scope) with(name string, b *binding) *scope {
	return &scope{name: name, b: b, parent: sc}
}

func (sc *scope) lookup(name string) *binding {
	for s := sc; s != nil; s = s.parent {
		if s.boundary {
			return nil
		}
		if s.name == name {
			return s.b
		}
	}
	return nil
}

func (sc *scope) liveCoq(name string) bool {
	for s := sc; s != nil; s = s.parent {
		if s.b != nil && s.b.coq == name && (s.b.kind == bTracked || s.b.kind == bOk) {
			return true
		}
	}
	return false
}

func (sc *scope) fresh(name string) string {
	if !sc.liveCoq(name) {
		return name
	}
	for i := 2; ; i++ {
		n := fmt.Sprintf("%s#%d", name, i)
		if !sc.liveCoq(n) {
			return n
		}
	}
}

// a tracked value: its expression and what the translator knows about it
type tval struct {
	e     *cexpr
	st    int
	ojg   bool
	root  int
	from  *binding // nearest variable it derives from
	stale string
}

type refusal struct{ why string }

type stagePkg struct {
	ext     string
	fset    *token.FileSet
	fileIdx map[string]int // base name -> global file index
	funcs   map[string]*ast.FuncDecl
	methods map[string]*ast.FuncDecl
	strMaps map[string]map[int64]string
	strC    map[string]string
	intC    map[string]int64
	types   map[string]bool
	inFiles map[*ast.FuncDecl]string
}

type tr struct {
	p        *stagePkg
	mul      int
	stack    []string
	nblk     int
	nroot    int
	reads    []*binding
	stales   []*binding
	all      []*binding
	pureMemo map[string]bool
	curFile  []string
}

type stageResult struct {
	ext, stage string
	prog       *cstmt
	sites      []int
	keys       []string
	fn         string
	why        string
}

type stagesOut struct {
	files   []string // index i+1 -> "ext/file.go"
	mul     int
	results []stageResult
}

var stagesCache *stagesOut

func loadStagePkg(ext string, fileBase int) (*stagePkg, error) {
	p := &stagePkg{ext: ext, fset: token.NewFileSet(), fileIdx: map[string]int{}, funcs: map[string]*ast.FuncDecl{},
		methods: map[string]*ast.FuncDecl{}, strMaps: map[string]map[int64]string{}, strC: map[string]string{},
		intC: map[string]int64{}, types: map[string]bool{}, inFiles: map[*ast.FuncDecl]string{}}
	dir := filepath.Join(*repo, "pkg", "extensions", ext)
	all, _ := filepath.Glob(filepath.Join(dir, "*.go"))
	sort.Strings(all)
	for i, f := range stageFilesOf[ext] {
		p.fileIdx[f] = fileBase + i
	}
	for _, f := range all {
		base := filepath.Base(f)
		if strings.HasSuffix(base, "_test.go") || strings.HasPrefix(base, "verif_") {
			continue
		}
		af, err := parser.ParseFile(p.fset, f, nil, 0)
		if err != nil {
			return nil, err
		}
		_, isStage := p.fileIdx[base]
		for _, d := range af.Decls {
			switch d := d.(type) {
			case *ast.FuncDecl:
				if d.Body == nil || !isStage {
					continue
				}
				p.inFiles[d] = base
				if d.Recv != nil {
					p.methods[d.Name.Name] = d
				} else {
					p.funcs[d.Name.Name] = d
				}
			case *ast.GenDecl:
				for _, sp := range d.Specs {
					switch sp := sp.(type) {
					case *ast.TypeSpec:
						p.types[sp.Name.Name] = true
					case *ast.ValueSpec:
						for i, n := range sp.Names {
							if i >= len(sp.Values) {
								continue
							}
							v := sp.Values[i]
							if d.Tok == token.CONST {
								if lit, ok := v.(*ast.BasicLit); ok {
									switch lit.Kind {
									case token.STRING:
										if s, err := strconv.Unquote(lit.Value); err == nil {
											p.strC[n.Name] = s
										}
									case token.INT:
										if z, err := strconv.ParseInt(lit.Value, 0, 64); err == nil {
											p.intC[n.Name] = z
										}
									}
								}
								continue
							}
							// var name = map[int]string{ n: "..." }
							cl, ok := v.(*ast.CompositeLit)
							if !ok {
								continue
							}
							mt, ok := cl.Type.(*ast.MapType)
							if !ok || exprString(p.fset, mt.Key) != "int" || exprString(p.fset, mt.Value) != "string" {
								continue
							}
							m := map[int64]string{}
							good := true
							for _, el := range cl.Elts {
								kv, ok := el.(*ast.KeyValueExpr)
								if !ok {
									good = false
									break
								}
								kl, ok1 := kv.Key.(*ast.BasicLit)
								vl, ok2 := kv.Value.(*ast.BasicLit)
								if !ok1 || !ok2 || kl.Kind != token.INT || vl.Kind != token.STRING {
									good = false
									break
								}
								kz, _ := strconv.ParseInt(kl.Value, 0, 64)
								vs, _ := strconv.Unquote(vl.Value)
								m[kz] = vs
							}
							if good {
								p.strMaps[n.Name] = m
							}
						}
					}
				}
			}
		}
	}
	return p, nil
}

func runStages() (*stagesOut, error) {
	if stagesCache != nil {
		return stagesCache, nil
	}
	out := &stagesOut{}
	var pkgs []*stagePkg
	maxLine := 0
	for _, ext := range stageExts {
		p, err := loadStagePkg(ext, 1+len(out.files))
		if err != nil {
			return nil, err
		}
		pkgs = append(pkgs, p)
		for _, f := range stageFilesOf[ext] {
			out.files = append(out.files, ext+"/"+f)
		}
		p.fset.Iterate(func(f *token.File) bool {
			if _, ok := p.fileIdx[filepath.Base(f.Name())]; ok && f.LineCount() > maxLine {
				maxLine = f.LineCount()
			}
			return true
		})
	}
	out.mul = 1000
	for out.mul <= maxLine {
		out.mul *= 10
	}
	for _, p := range pkgs {
		for _, stage := range []string{"Summarize", "Represent"} {
			r := stageResult{ext: p.ext, stage: strings.ToLower(stage), prog: sSkip}
			t := &tr{p: p, mul: out.mul, pureMemo: map[string]bool{}}
			func() {
				defer func() {
					if x := recover(); x != nil {
						rf, ok := x.(refusal)
						if !ok {
							panic(x)
						}
						r.fn = p.ext + "." + stage
						if len(t.stack) > 1 {
							r.fn += " (in " + strings.Join(t.stack[1:], " > ") + ")"
						}
						r.why = rf.why
						r.prog = sSkip
					}
				}()
				r.prog = simplify(t.stageFunc(stage))
			}()
			sm := map[int]bool{}
			r.prog.sites(sm)
			r.sites = sortedInts(sm)
			km := map[string]bool{}
			r.prog.keys(km)
			for k := range km {
				r.keys = append(r.keys, k)
			}
			sort.Strings(r.keys)
			out.results = append(out.results, r)
		}
	}
	stagesCache = out
	return out, nil
}

const stagesHeader = `(* generated by vh-translate (harness/cmd/vh-translate/stages.go) from
   pkg/extensions/{redis,amqp,kafka,http}/{main.go,helpers.go} and pkg/extensions/dns/main.go: do not edit.

   prog_<ext>_<stage>: what Summarize / Represent (helpers inlined) do to the request and response
   maps, as a program of Shape/Access.v.  Tracked values are the variables "request"/"response"
   (entry.Request / entry.Response in Summarize) and everything derived from them by index,
   assertion, range, comma-ok; every type assertion on a tracked value is an EAs site and every
   index of a tracked slice with a constant an EIdx site
   (site = file index * site_file_mul + Go line, files in stage_files).

   Assumptions of the translation (trusted, exercised by the model-vs-implementation check):
   * "err != nil" after json.Marshal, oj.ParseString of a marshalled tracked value and
     jp.ParseString of a literal is false;
   * oj.ParseString(string(json.Marshal(x))) is x (ojg decodes integers as int64: a float64
     assertion on anything derived from it is refused, not translated);
   * conversions between numeric types (int(x), ApiKey(x)) keep the number; for numbers that are
     not recorded in the value (VNum None: not integral or beyond 2^31) exec takes the else
     branch of a numeric switch where Go would compare the truncated value - check examines both
     branches whenever the shape does not fix the number;
   * operands are evaluated left to right; functions of other packages (fmt, strconv,
     encoding/json, sort, ...) do not panic and do not modify their arguments;
   * code that does no index / assertion / range on a tracked value is dropped; a condition on
     untracked data is accepted only when both branches are such code;
   * the JSON text of a value (json.Marshal) is never empty: len(text) > 0 is true;
   * "x = e" in a branch of an "if" that stands in the block of x (e a tracked expression, a string
     constant, a reflect.Kind) re-binds x for the rest of that block, which is translated inside
     the branch (the continuation is duplicated);
   * an interface{} compared with a string constant is a string test followed by the comparison;
   * reflect.TypeOf(x) == nil is x == nil; the reflect.Kind of a non-nil decoded JSON value is Bool /
     Float64 / String / Slice / Map according to its type, so a switch on it is a chain of dynamic
     type tests (SIfOk); no decoded value has another kind;
   * "for k := range m { keys = append(keys, k) } ... for _, k := range keys { ... m[k] ... }" is a
     loop over m: the order of the iteration (the keys may have been sorted) is not modelled.
   Outside the model: panics from other causes (nil pointers, arithmetic, slicing or indexing of
   untracked data), the form of the output. *)
`

func translateStages() (string, error) {
	o, err := runStages()
	if err != nil {
		return "", err
	}
	var b strings.Builder
	b.WriteString(stagesHeader)
	b.WriteString("From Coq Require Import List String ZArith.\nRequire Import V.Base.Prelude V.Shape.Access.\nImport ListNotations.\nLocal Open Scope string_scope.\nSet Warnings \"-abstract-large-number\".\n\n")
	fmt.Fprintf(&b, "Definition site_file_mul : nat := %d.\n", o.mul)
	b.WriteString("Definition stage_files : list (nat * string) := [")
	for i, f := range o.files {
		if i > 0 {
			b.WriteString("; ")
		}
		fmt.Fprintf(&b, "(%d, %s)", i+1, kty.CoqString(f))
	}
	b.WriteString("].\n\n")
	var un []string
	for _, r := range o.results {
		fmt.Fprintf(&b, "Definition prog_%s_%s : stmt :=\n %s.\n\n", r.ext, r.stage, r.prog.coq(" "))
		var ss []string
		for _, s := range r.sites {
			ss = append(ss, strconv.Itoa(s))
		}
		fmt.Fprintf(&b, "Definition sites_%s_%s : list nat := [%s].\n\n", r.ext, r.stage, strings.Join(ss, "; "))
		if r.why != "" {
			un = append(un, fmt.Sprintf("(%s, %s)", kty.CoqString(r.fn), kty.CoqString(r.why)))
		}
	}
	fmt.Fprintf(&b, "(* (function, reason) *)\nDefinition untranslated : list (string * string) := [%s].\n", strings.Join(un, ";\n  "))
	return b.String(), nil
}

// the same facts for the Python side of the tie
func translateStagesJSON() (string, error) {
	o, err := runStages()
	if err != nil {
		return "", err
	}
	var b strings.Builder
	fmt.Fprintf(&b, "{\"mul\": %d, \"files\": [", o.mul)
	for i, f := range o.files {
		if i > 0 {
			b.WriteString(", ")
		}
		fmt.Fprintf(&b, "%q", f)
	}
	b.WriteString("], \"programs\": [")
	for i, r := range o.results {
		if i > 0 {
			b.WriteString(", ")
		}
		var ss, ks []string
		for _, s := range r.sites {
			ss = append(ss, strconv.Itoa(s))
		}
		for _, k := range r.keys {
			ks = append(ks, strconv.Quote(k))
		}
		fmt.Fprintf(&b, "\n {\"ext\": %q, \"stage\": %q, \"sites\": [%s], \"keys\": [%s], \"untranslated\": %q}", r.ext, r.stage,
			strings.Join(ss, ", "), strings.Join(ks, ", "), strings.TrimSpace(r.fn+" "+r.why))
	}
	b.WriteString("]}\n")
	return b.String(), nil
}

// ------------------------------------------------------------------------------ helpers

func (t *tr) refuse(n ast.Node, format string, a ...interface{}) {
	pos := ""
	if n != nil {
		ps := t.p.fset.Position(n.Pos())
		pos = fmt.Sprintf(" at %s:%d", filepath.Base(ps.Filename), ps.Line)
	}
	panic(refusal{fmt.Sprintf(format, a...) + pos})
}

func (t *tr) site(n ast.Node) int {
	ps := t.p.fset.Position(n.Pos())
	idx, ok := t.p.fileIdx[filepath.Base(ps.Filename)]
	if !ok {
		t.refuse(n, "assertion in a file outside the translated set")
	}
	return idx*t.mul + ps.Line
}

func (t *tr) line(n ast.Node) int { return t.p.fset.Position(n.Pos()).Line }

func (t *tr) newBlk() int { t.nblk++; return t.nblk }

func (t *tr) newRoot() int { t.nroot++; return t.nroot }

func (t *tr) declare(sc *scope, name string, b *binding) *scope {
	if b.kind == bTracked {
		t.all = append(t.all, b)
	}
	if name == "_" {
		return sc
	}
	return sc.with(name, b)
}

func (t *tr) trackedBinding(sc *scope, name string, tv tval, blk int, alias bool) *binding {
	coq := name
	if name != "_" {
		coq = sc.fresh(name)
	}
	return &binding{kind: bTracked, coq: coq, st: tv.st, ojg: tv.ojg, root: tv.root, parent: tv.from, stale: tv.stale, blk: blk}
}

func (t *tr) markStale(b *binding, why string) {
	if b.stale == "" {
		b.stale = why
	}
	t.stales = append(t.stales, b)
}

// use of a tracked value in an operation: it must still be what the Go variable holds
func (t *tr) use(n ast.Node, tv tval) {
	if tv.stale != "" {
		t.refuse(n, "operation on a value the model no longer follows (%s)", tv.stale)
	}
	if tv.from != nil {
		if tv.from.stale != "" {
			t.refuse(n, "operation on a value the model no longer follows (%s)", tv.from.stale)
		}
		t.reads = append(t.reads, tv.from)
	}
}

func isDescendant(b, of *binding) bool {
	for x := b; x != nil; x = x.parent {
		if x == of {
			return true
		}
	}
	return false
}

func tyOfTypeExpr(fset *token.FileSet, e ast.Expr) (string, int, bool) {
	switch strings.ReplaceAll(exprString(fset, e), " ", "") {
	case "string":
		return "TyStr", stStr, true
	case "float64":
		return "TyNum", stNum, true
	case "bool":
		return "TyBool", stBool, true
	case "[]interface{}", "[]any":
		return "TyArr", stSlice, true
	case "map[string]interface{}", "map[string]any":
		return "TyObj", stMap, true
	}
	return "", 0, false
}

func staticOfParam(fset *token.FileSet, e ast.Expr) int {
	switch strings.ReplaceAll(exprString(fset, e), " ", "") {
	case "string":
		return stStr
	case "float64", "int", "int64", "int32", "int16":
		return stNum
	case "bool":
		return stBool
	case "[]interface{}", "[]any":
		return stSlice
	case "map[string]interface{}", "map[string]any":
		return stMap
	}
	return stIface
}

var numericTypes = map[string]bool{"int": true, "int8": true, "int16": true, "int32": true, "int64": true, "uint": true, "uint8": true,
	"uint16": true, "uint32": true, "uint64": true, "float32": true, "float64": true}

var pathRe = regexp.MustCompile(`^[A-Za-z_][A-Za-z0-9_]*(\.[A-Za-z_][A-Za-z0-9_]*)*$`)

func unparen(e ast.Expr) ast.Expr {
	for {
		p, ok := e.(*ast.ParenExpr)
		if !ok {
			return e
		}
		e = p.X
	}
}

func isNilIdent(e ast.Expr) bool {
	id, ok := unparen(e).(*ast.Ident)
	return ok && id.Name == "nil"
}

// ------------------------------------------------------------------------------ literals

func (t *tr) strLit(e ast.Expr, sc *scope) (string, bool) {
	switch e := unparen(e).(type) {
	case *ast.BasicLit:
		if e.Kind == token.STRING {
			s, err := strconv.Unquote(e.Value)
			return s, err == nil
		}
	case *ast.Ident:
		if sc.lookup(e.Name) != nil {
			return "", false
		}
		s, ok := t.p.strC[e.Name]
		return s, ok
	case *ast.IndexExpr:
		id, ok := e.X.(*ast.Ident)
		if !ok || sc.lookup(id.Name) != nil {
			return "", false
		}
		m, ok := t.p.strMaps[id.Name]
		if !ok {
			return "", false
		}
		k, ok := t.intLit(e.Index, sc)
		if !ok {
			return "", false
		}
		return m[k], true // a missing key of a map[int]string gives ""
	}
	return "", false
}

func (t *tr) intLit(e ast.Expr, sc *scope) (int64, bool) {
	switch e := unparen(e).(type) {
	case *ast.BasicLit:
		if e.Kind == token.INT {
			z, err := strconv.ParseInt(e.Value, 0, 64)
			return z, err == nil
		}
	case *ast.Ident:
		if sc.lookup(e.Name) != nil {
			return 0, false
		}
		z, ok := t.p.intC[e.Name]
		return z, ok
	case *ast.UnaryExpr:
		if e.Op == token.SUB {
			z, ok := t.intLit(e.X, sc)
			return -z, ok
		}
	}
	return 0, false
}

func printableASCII(s string) bool {
	for i := 0; i < len(s); i++ {
		if s[i] < 32 || s[i] > 126 {
			return false
		}
	}
	return true
}
