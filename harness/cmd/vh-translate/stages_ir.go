package main

// The access-program IR of coq/Shape/Access.v as Go data, with a printer to Coq terms, a
// simplifier (operations that cannot panic in Go are dropped) and structural equality.

import (
	"fmt"
	"sort"
	"strings"

	"verif/harness/kty"
)

type cexpr struct {
	op   string // var field as asok path del str idx
	x    string
	n    int
	e    *cexpr
	k    string
	site int
	t    string // TyBool TyNum TyStr TyArr TyObj
	ks   []string
}

type cstmt struct {
	op   string // skip seq eval let ifnil ifok ifstr ifnum first forarr forobj
	a, b *cstmt
	e    *cexpr
	x, y string
	t    string
	s    string
	z    int64
}

var sSkip = &cstmt{op: "skip"}

func eVar(x string) *cexpr { return &cexpr{op: "var", x: x} }

func (e *cexpr) coq() string {
	switch e.op {
	case "var":
		return "EVar " + kty.CoqString(e.x)
	case "field":
		return fmt.Sprintf("EField (%s) %s", e.e.coq(), kty.CoqString(e.k))
	case "as":
		return fmt.Sprintf("EAs %d (%s) %s", e.site, e.e.coq(), e.t)
	case "asok":
		return fmt.Sprintf("EAsOk (%s) %s", e.e.coq(), e.t)
	case "path":
		var ks []string
		for _, k := range e.ks {
			ks = append(ks, kty.CoqString(k))
		}
		return fmt.Sprintf("EPath (%s) [%s]", e.e.coq(), strings.Join(ks, "; "))
	case "del":
		return fmt.Sprintf("EDel (%s) %s", e.e.coq(), kty.CoqString(e.k))
	case "str":
		return "EStr " + kty.CoqString(e.k)
	case "idx":
		return fmt.Sprintf("EIdx %d (%s) %d", e.site, e.e.coq(), e.n)
	}
	panic("cexpr op " + e.op)
}

func (e *cexpr) hasAs() bool {
	if e == nil {
		return false
	}
	if e.op == "as" || e.op == "idx" {
		return true // an operation that can panic
	}
	return e.e.hasAs()
}

func (e *cexpr) sites(out map[int]bool) {
	for ; e != nil; e = e.e {
		if e.op == "as" || e.op == "idx" {
			out[e.site] = true
		}
	}
}

func coqZ(z int64) string {
	if z < 0 {
		return fmt.Sprintf("(%d)%%Z", z)
	}
	return fmt.Sprintf("%d%%Z", z)
}

func (s *cstmt) coq(ind string) string {
	in := ind + " "
	switch s.op {
	case "skip":
		return "SSkip"
	case "seq":
		// flatten right-nested sequences for readability
		return fmt.Sprintf("SSeq (%s)\n%s(%s)", s.a.coq(in), ind, s.b.coq(ind))
	case "eval":
		return fmt.Sprintf("SEval (%s)", s.e.coq())
	case "let":
		return fmt.Sprintf("SLet %s (%s)\n%s(%s)", kty.CoqString(s.x), s.e.coq(), ind, s.a.coq(ind))
	case "ifnil":
		return fmt.Sprintf("SIfNil (%s)\n%s(%s)\n%s(%s)", s.e.coq(), in, s.a.coq(in), in, s.b.coq(in))
	case "ifok":
		return fmt.Sprintf("SIfOk %s (%s) %s\n%s(%s)\n%s(%s)", kty.CoqString(s.x), s.e.coq(), s.t, in, s.a.coq(in), in, s.b.coq(in))
	case "ifstr":
		return fmt.Sprintf("SIfStrEq (%s) %s\n%s(%s)\n%s(%s)", s.e.coq(), kty.CoqString(s.s), in, s.a.coq(in), ind, s.b.coq(ind))
	case "ifnum":
		return fmt.Sprintf("SIfNumEq (%s) %s\n%s(%s)\n%s(%s)", s.e.coq(), coqZ(s.z), in, s.a.coq(in), ind, s.b.coq(ind))
	case "first":
		return fmt.Sprintf("SFirst %s (%s)\n%s(%s)\n%s(%s)", kty.CoqString(s.x), s.e.coq(), in, s.a.coq(in), in, s.b.coq(in))
	case "forarr":
		return fmt.Sprintf("SForArr %s (%s)\n%s(%s)", kty.CoqString(s.x), s.e.coq(), in, s.a.coq(in))
	case "forobj":
		return fmt.Sprintf("SForObj %s %s (%s)\n%s(%s)", kty.CoqString(s.x), kty.CoqString(s.y), s.e.coq(), in, s.a.coq(in))
	}
	panic("cstmt op " + s.op)
}

func (s *cstmt) sites(out map[int]bool) {
	if s == nil {
		return
	}
	s.e.sites(out)
	s.a.sites(out)
	s.b.sites(out)
}

func (s *cstmt) keys(out map[string]bool) {
	if s == nil {
		return
	}
	for e := s.e; e != nil; e = e.e {
		if e.op == "field" || e.op == "del" {
			out[e.k] = true
		}
		for _, k := range e.ks {
			out[k] = true
		}
	}
	s.a.keys(out)
	s.b.keys(out)
}

func sortedInts(m map[int]bool) []int {
	var out []int
	for k := range m {
		out = append(out, k)
	}
	sort.Ints(out)
	return out
}

func seq(a, b *cstmt) *cstmt {
	if a.op == "skip" {
		return b
	}
	if b.op == "skip" {
		return a
	}
	return &cstmt{op: "seq", a: a, b: b}
}

// evalOf keeps an expression only for the assertions in it (an index of a map, a comma-ok
// assertion, a path lookup and a delete cannot panic in Go).
func evalOf(e *cexpr) *cstmt {
	if e.hasAs() {
		return &cstmt{op: "eval", e: e}
	}
	return sSkip
}

// simplify removes what cannot panic; the result is SSkip iff the statement has no assertion
// site and no ill-typed use is possible in Go.
func simplify(s *cstmt) *cstmt {
	switch s.op {
	case "skip":
		return sSkip
	case "seq":
		return seq(simplify(s.a), simplify(s.b))
	case "eval":
		return evalOf(s.e)
	case "let":
		k := simplify(s.a)
		if k.op == "skip" {
			return evalOf(s.e)
		}
		return &cstmt{op: "let", x: s.x, e: s.e, a: k}
	case "ifnil", "ifstr", "ifnum":
		a, b := simplify(s.a), simplify(s.b)
		if a.op == "skip" && b.op == "skip" {
			return evalOf(s.e)
		}
		c := *s
		c.a, c.b = a, b
		return &c
	case "ifok", "first":
		a, b := simplify(s.a), simplify(s.b)
		if a.op == "skip" && b.op == "skip" {
			return evalOf(s.e)
		}
		c := *s
		c.a, c.b = a, b
		return &c
	case "forarr", "forobj":
		a := simplify(s.a)
		if a.op == "skip" {
			return evalOf(s.e)
		}
		c := *s
		c.a = a
		return &c
	}
	panic("simplify " + s.op)
}

func sameStmt(a, b *cstmt) bool { return a.coq("") == b.coq("") }
