//go:build verif

// vh-stages runs the REAL Summarize and Represent of the redis, amqp and kafka extensions on given
// request / response maps under recover and reports, for each, whether it panicked and where
// (innermost frame inside pkg/extensions/<ext>), together with the skeleton of the maps as a Coq
// term of Shape/Access.jv.  Used by the model-vs-implementation check of C11 (tools/fam/stages.py).
//
//	vh-stages run    [-strmax n]                        lines {id, ext, request, response}
//	vh-stages mutate [-strmax n] [-per k] -keys StagesSrc.json   same input; every single-point deviation of
//	                                                    each item is run, a few per outcome are printed
package main

import (
	"bufio"
	"encoding/json"
	"flag"
	"fmt"
	"os"
	"path/filepath"
	"runtime"
	"sort"
	"strings"

	"github.com/kubeshark/base/pkg/api"
	"github.com/kubeshark/base/pkg/extensions/amqp"
	"github.com/kubeshark/base/pkg/extensions/dns"
	httpext "github.com/kubeshark/base/pkg/extensions/http"
	"github.com/kubeshark/base/pkg/extensions/kafka"
	"github.com/kubeshark/base/pkg/extensions/redis"
	"github.com/rs/zerolog"
)

type caseIn struct {
	ID       string          `json:"id"`
	Ext      string          `json:"ext"`
	Request  json.RawMessage `json:"request"`
	Response json.RawMessage `json:"response"`
}

type outcome struct {
	Panic bool   `json:"panic"`
	Kind  string `json:"kind,omitempty"` // assert | index | other
	File  string `json:"file,omitempty"` // <ext>/<file>.go of the innermost frame inside the extension
	Line  int    `json:"line,omitempty"`
	Msg   string `json:"msg,omitempty"`
}

type caseOut struct {
	ID       string          `json:"id"`
	Ext      string          `json:"ext"`
	Mut      string          `json:"mut,omitempty"`
	ReqSkel  string          `json:"req_skel"`
	RespSkel string          `json:"resp_skel"`
	Sum      outcome         `json:"sum"`
	Rep      outcome         `json:"rep"`
	Request  json.RawMessage `json:"request,omitempty"`
	Response json.RawMessage `json:"response,omitempty"`
}

var strMax = 1024

var dissectors = map[string]api.Dissector{"redis": redis.NewDissector(), "amqp": amqp.NewDissector(), "kafka": kafka.NewDissector(),
	"http": httpext.NewDissector(), "dns": dns.NewDissector()}

func guarded(ext string, f func()) (o outcome) {
	defer func() {
		r := recover()
		if r == nil {
			return
		}
		o.Panic = true
		o.Kind = "other"
		if _, ok := r.(*runtime.TypeAssertionError); ok {
			o.Kind = "assert"
		} else if re, ok := r.(runtime.Error); ok && strings.HasPrefix(re.Error(), "runtime error: index out of range") {
			o.Kind = "index"
		}
		o.Msg = fmt.Sprint(r)
		if len(o.Msg) > 200 {
			o.Msg = o.Msg[:200]
		}
		pcs := make([]uintptr, 64)
		n := runtime.Callers(2, pcs)
		frames := runtime.CallersFrames(pcs[:n])
		prefix := "github.com/kubeshark/base/pkg/extensions/" + ext + "."
		for {
			fr, more := frames.Next()
			if strings.HasPrefix(fr.Function, prefix) {
				o.File = ext + "/" + filepath.Base(fr.File)
				o.Line = fr.Line
				return
			}
			if !more {
				return
			}
		}
	}()
	f()
	return
}

func runStages(ext string, req, resp map[string]interface{}) (sum, rep outcome) {
	d := dissectors[ext]
	entry := &api.Entry{Request: req, Response: resp, Worker: "w", Stream: "s", Source: &api.Resolution{}, Destination: &api.Resolution{}}
	sum = guarded(ext, func() { d.Summarize(entry) })
	rep = guarded(ext, func() { d.Represent(req, resp) })
	return
}

// ---------------------------------------------------------------------------------- skeletons

func coqStr(s string) string { return `"` + strings.ReplaceAll(s, `"`, `""`) + `"` }

func printable(s string) bool {
	for i := 0; i < len(s); i++ {
		if s[i] < 32 || s[i] > 126 {
			return false
		}
	}
	return true
}

// keys are always recorded; bytes a Coq string literal cannot carry are escaped injectively
func coqKey(k string) string {
	if printable(k) && !strings.Contains(k, `\`) {
		return coqStr(k)
	}
	var b strings.Builder
	for i := 0; i < len(k); i++ {
		c := k[i]
		switch {
		case c == '\\':
			b.WriteString(`\\`)
		case c < 32 || c > 126:
			fmt.Fprintf(&b, `\x%02x`, c)
		default:
			b.WriteByte(c)
		}
	}
	return coqStr(b.String())
}

// The skeleton is printed with the monomorphic constructors the case files define
// (jn z = VNum (Some z), js s = VStr (Some s), jN / jS = not recorded, ac / an and oc / on = cons /
// nil of arrays and objects): plain applications elaborate several times faster than list and pair
// notations with implicit arguments.
func skel(b *strings.Builder, v interface{}) {
	switch x := v.(type) {
	case nil:
		b.WriteString("VNull")
	case bool:
		b.WriteString("VBool")
	case float64:
		if x == float64(int64(x)) && x < 1<<31 && x > -(1<<31) {
			fmt.Fprintf(b, "(jn (%d)%%Z)", int64(x))
		} else {
			b.WriteString("jN")
		}
	case string:
		if len(x) <= strMax && printable(x) {
			b.WriteString("(js " + coqStr(x) + ")")
		} else {
			b.WriteString("jS")
		}
	case []interface{}:
		b.WriteString("(VArr ")
		for _, e := range x {
			b.WriteString("(ac ")
			skel(b, e)
			b.WriteString(" ")
		}
		b.WriteString("an")
		b.WriteString(strings.Repeat(")", len(x)+1))
	case map[string]interface{}:
		keys := make([]string, 0, len(x))
		for k := range x {
			keys = append(keys, k)
		}
		sort.Strings(keys)
		b.WriteString("(VObj ")
		for _, k := range keys {
			b.WriteString("(oc " + coqKey(k) + " ")
			skel(b, x[k])
			b.WriteString(" ")
		}
		b.WriteString("on")
		b.WriteString(strings.Repeat(")", len(keys)+1))
	default:
		b.WriteString("VNull")
	}
}

func skelOfMap(m map[string]interface{}) string {
	var b strings.Builder
	if m == nil {
		return "VNull"
	}
	skel(&b, m)
	return b.String()
}

func decode(raw json.RawMessage) (map[string]interface{}, error) {
	var m map[string]interface{}
	if len(raw) == 0 {
		return nil, nil
	}
	err := json.Unmarshal(raw, &m)
	return m, err
}

func runOne(c *caseIn, keep bool) (*caseOut, error) {
	req, err := decode(c.Request)
	if err != nil {
		return nil, err
	}
	resp, err := decode(c.Response)
	if err != nil {
		return nil, err
	}
	out := &caseOut{ID: c.ID, Ext: c.Ext, ReqSkel: skelOfMap(req), RespSkel: skelOfMap(resp)}
	out.Sum, out.Rep = runStages(c.Ext, req, resp)
	if keep {
		out.Request, out.Response = c.Request, c.Response
	}
	return out, nil
}

// ---------------------------------------------------------------------------------- mutation

type step struct {
	key string
	idx int
	arr bool
}

var replacements = []struct {
	name string
	val  func() interface{}
}{
	{"null", func() interface{} { return nil }},
	{"bool", func() interface{} { return true }},
	{"num", func() interface{} { return float64(7) }},
	{"str", func() interface{} { return "x" }},
	{"emptyarr", func() interface{} { return []interface{}{} }},
	{"arr", func() interface{} { return []interface{}{"x"} }},
	{"arrobj", func() interface{} { return []interface{}{map[string]interface{}{}} }},
	{"emptyobj", func() interface{} { return map[string]interface{}{} }},
	{"obj", func() interface{} { return map[string]interface{}{"x": "y"} }},
}

// every place of the value where the program can look: present keys, keys the programs read that
// are absent, the first element of arrays
func paths(v interface{}, keys []string, pre []step, out *[][]step, depth int) {
	if depth > 12 {
		return
	}
	switch x := v.(type) {
	case map[string]interface{}:
		ks := make([]string, 0, len(x))
		for k := range x {
			ks = append(ks, k)
		}
		sort.Strings(ks)
		for _, k := range ks {
			p := append(append([]step{}, pre...), step{key: k})
			*out = append(*out, p)
			paths(x[k], keys, p, out, depth+1)
		}
		for _, k := range keys {
			if _, ok := x[k]; !ok {
				*out = append(*out, append(append([]step{}, pre...), step{key: k}))
			}
		}
	case []interface{}:
		if len(x) > 0 {
			p := append(append([]step{}, pre...), step{idx: 0, arr: true})
			*out = append(*out, p)
			paths(x[0], keys, p, out, depth+1)
		}
	}
}

func apply(root map[string]interface{}, p []step, del bool, val interface{}) bool {
	var cur interface{} = root
	for i, s := range p {
		last := i == len(p)-1
		if s.arr {
			a, ok := cur.([]interface{})
			if !ok || s.idx >= len(a) {
				return false
			}
			if last {
				if del {
					return false
				}
				a[s.idx] = val
				return true
			}
			cur = a[s.idx]
		} else {
			m, ok := cur.(map[string]interface{})
			if !ok {
				return false
			}
			if last {
				if del {
					if _, ok := m[s.key]; !ok {
						return false
					}
					delete(m, s.key)
				} else {
					m[s.key] = val
				}
				return true
			}
			cur = m[s.key]
		}
	}
	return false
}

func pathString(side string, p []step) string {
	var b strings.Builder
	b.WriteString(side)
	for _, s := range p {
		if s.arr {
			fmt.Fprintf(&b, "[%d]", s.idx)
		} else {
			b.WriteString("." + s.key)
		}
	}
	return b.String()
}

// replacements tried where the programs read a key the item does not have: a wrong type for
// every asserted type, and an object so that code below it runs
var absentRepl = map[string]bool{"bool": true, "str": true, "obj": true}

func mutate(c *caseIn, keys []string, per int, emit func(*caseOut)) error {
	base := map[string]json.RawMessage{"request": c.Request, "response": c.Response}
	seen := map[string]int{}
	// build makes a fresh copy of the deviating pair; it is run first and printed (from another
	// fresh copy: the stages see exactly what is printed) only when its outcome class is wanted
	try := func(name string, build func() (map[string]interface{}, map[string]interface{}, bool)) {
		req, resp, ok := build()
		if !ok {
			return
		}
		sum, rep := runStages(c.Ext, req, resp)
		class := fmt.Sprintf("%v:%s:%d/%v:%s:%d", sum.Panic, sum.File, sum.Line, rep.Panic, rep.File, rep.Line)
		if seen[class] >= per {
			return
		}
		seen[class]++
		req, resp, _ = build()
		rq, _ := json.Marshal(req)
		rs, _ := json.Marshal(resp)
		if req == nil {
			rq = []byte("null")
		}
		if resp == nil {
			rs = []byte("null")
		}
		o, err := runOne(&caseIn{ID: c.ID, Ext: c.Ext, Request: rq, Response: rs}, true)
		if err != nil {
			return
		}
		o.Mut = name
		emit(o)
	}
	for _, side := range []string{"request", "response"} {
		side := side
		m, err := decode(base[side])
		if err != nil {
			return err
		}
		var ps [][]step
		paths(m, keys, nil, &ps, 0)
		other := "response"
		if side == "response" {
			other = "request"
		}
		pair := func(x map[string]interface{}) (map[string]interface{}, map[string]interface{}, bool) {
			om, _ := decode(base[other])
			if side == "request" {
				return x, om, true
			}
			return om, x, true
		}
		// the map itself nil
		try(side+"=nil", func() (map[string]interface{}, map[string]interface{}, bool) { return pair(nil) })
		for _, p := range ps {
			p := p
			probe, _ := decode(base[side])
			present := apply(probe, p, true, nil)
			for _, r := range replacements {
				r := r
				if !present && !absentRepl[r.name] {
					continue
				}
				try(pathString(side, p)+"="+r.name, func() (map[string]interface{}, map[string]interface{}, bool) {
					x, _ := decode(base[side])
					if !apply(x, p, false, r.val()) {
						return nil, nil, false
					}
					return pair(x)
				})
			}
			if present {
				try(pathString(side, p)+" deleted", func() (map[string]interface{}, map[string]interface{}, bool) {
					x, _ := decode(base[side])
					if !apply(x, p, true, nil) {
						return nil, nil, false
					}
					return pair(x)
				})
			}
		}
	}
	return nil
}

// ---------------------------------------------------------------------------------- main

func main() {
	zerolog.SetGlobalLevel(zerolog.Disabled)
	if len(os.Args) < 2 {
		fmt.Fprintln(os.Stderr, "usage: vh-stages run|mutate [flags]")
		os.Exit(2)
	}
	mode := os.Args[1]
	fs := flag.NewFlagSet(mode, flag.ExitOnError)
	fs.IntVar(&strMax, "strmax", 1024, "longest string recorded in a skeleton")
	per := fs.Int("per", 2, "mutants kept per outcome class and base item")
	keysFile := fs.String("keys", "", "StagesSrc.json (keys the programs read)")
	fs.Parse(os.Args[2:])
	keys := map[string][]string{}
	if *keysFile != "" {
		var src struct {
			Programs []struct {
				Ext  string   `json:"ext"`
				Keys []string `json:"keys"`
			} `json:"programs"`
		}
		b, err := os.ReadFile(*keysFile)
		if err == nil {
			err = json.Unmarshal(b, &src)
		}
		if err != nil {
			fmt.Fprintln(os.Stderr, "keys:", err)
			os.Exit(2)
		}
		for _, p := range src.Programs {
			seen := map[string]bool{}
			for _, k := range keys[p.Ext] {
				seen[k] = true
			}
			for _, k := range p.Keys {
				if !seen[k] {
					keys[p.Ext] = append(keys[p.Ext], k)
				}
			}
		}
	}
	sc := bufio.NewScanner(os.Stdin)
	sc.Buffer(make([]byte, 1<<20), 1<<28)
	w := bufio.NewWriter(os.Stdout)
	defer w.Flush()
	enc := json.NewEncoder(w)
	enc.SetEscapeHTML(false)
	for sc.Scan() {
		line := sc.Bytes()
		if len(line) == 0 {
			continue
		}
		var c caseIn
		if err := json.Unmarshal(line, &c); err != nil || dissectors[c.Ext] == nil {
			fmt.Fprintln(os.Stderr, "bad case:", err, c.Ext)
			os.Exit(2)
		}
		switch mode {
		case "run":
			o, err := runOne(&c, false)
			if err != nil {
				fmt.Fprintln(os.Stderr, "bad case:", err)
				os.Exit(2)
			}
			enc.Encode(o)
		case "mutate":
			if err := mutate(&c, keys[c.Ext], *per, func(o *caseOut) { enc.Encode(o) }); err != nil {
				fmt.Fprintln(os.Stderr, "bad case:", err)
				os.Exit(2)
			}
		default:
			fmt.Fprintln(os.Stderr, "unknown mode", mode)
			os.Exit(2)
		}
	}
}
