// vh-dns: builds DNS items from JSON lines {"request":{..},"response":{..},"protocol":"dns"} (the
// DNS dissector has no stream side in this library: its items are built by the caller) and pushes
// them through the stages; also used for hand-made items of any extension.
package main

import (
	"bufio"
	"encoding/json"
	"os"
	"time"

	"github.com/kubeshark/base/pkg/api"
	"github.com/kubeshark/base/pkg/extensions"

	"verif/harness/stage"
)

type in struct {
	Protocol string                 `json:"protocol"`
	Request  map[string]interface{} `json:"request"`
	Response map[string]interface{} `json:"response"`
	Keep     bool                   `json:"keep"`
}

func main() {
	extensions.LoadExtensions()
	sc := bufio.NewScanner(os.Stdin)
	sc.Buffer(make([]byte, 1<<20), 1<<28)
	w := bufio.NewWriter(os.Stdout)
	defer w.Flush()
	enc := json.NewEncoder(w)
	for sc.Scan() {
		var c in
		if err := json.Unmarshal(sc.Bytes(), &c); err != nil {
			enc.Encode(map[string]string{"panic": "bad input: " + err.Error()})
			continue
		}
		ext := extensions.ExtensionsMap[c.Protocol]
		item := &api.OutputChannelItem{
			Index: 1, Stream: "s", Protocol: *ext.Protocol, Timestamp: 1700000000000,
			ConnectionInfo: &api.ConnectionInfo{ClientIP: "10.0.0.1", ClientPort: "1", ServerIP: "10.0.0.2", ServerPort: "53", IsOutgoing: true},
			Pair: &api.RequestResponsePair{
				Request:  api.GenericMessage{IsRequest: true, CaptureTime: time.Unix(1700000000, 0), CaptureSize: 40, Payload: c.Request},
				Response: api.GenericMessage{IsRequest: false, CaptureTime: time.Unix(1700000001, 0), CaptureSize: 80, Payload: c.Response},
			},
		}
		enc.Encode(stage.Run(ext, item, c.Keep))
	}
}
