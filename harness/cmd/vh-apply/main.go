// vh-apply: runs the real kfl.Apply on (query, record) pairs; stdin = JSON lines {"q":..,"r":..},
// stdout = JSON lines {"truth":..,"err":..,"panic":..}.  Also `vh-apply variants` prints the
// protocol descriptors of every registered extension's default protocol and the macro table.
package main

import (
	"bufio"
	"encoding/json"
	"fmt"
	"os"

	"github.com/kubeshark/base/pkg/languages/kfl"
)

type in struct {
	Q string `json:"q"`
	R string `json:"r"`
}
type out struct {
	Truth bool   `json:"truth"`
	Err   string `json:"err,omitempty"`
	Panic string `json:"panic,omitempty"`
	Valid string `json:"valid,omitempty"`
}

func apply(c in) (o out) {
	defer func() {
		if r := recover(); r != nil {
			o.Panic = fmt.Sprint(r)
		}
	}()
	if err := kfl.Validate(c.Q); err != nil {
		o.Valid = err.Error()
	}
	t, _, err := kfl.Apply([]byte(c.R), c.Q)
	o.Truth = t
	if err != nil {
		o.Err = err.Error()
	}
	return
}

func main() {
	sc := bufio.NewScanner(os.Stdin)
	sc.Buffer(make([]byte, 1<<20), 1<<28)
	w := bufio.NewWriter(os.Stdout)
	defer w.Flush()
	enc := json.NewEncoder(w)
	for sc.Scan() {
		var c in
		if err := json.Unmarshal(sc.Bytes(), &c); err != nil {
			enc.Encode(out{Err: "bad input: " + err.Error()})
			continue
		}
		enc.Encode(apply(c))
	}
}
