//go:build verif

// vh-http: harness commands for the HTTP/1.x, HTTP/2 and gRPC dissector (C03, C04 and the HTTP
// share of C01, C02, C08, C11).
//
//	vh-http run     cases on stdin (one JSON object per line) -> one JSON result per line
//	vh-http encode  cases on stdin -> bytes of both halves and the located length fields
//	vh-http cost    cases on stdin -> per case allocation / CPU of Dissect + later stages (run it
//	                in a child process under an address-space limit)
package main

import (
	"bufio"
	"encoding/base64"
	"encoding/json"
	"fmt"
	"os"
	"runtime"
	"syscall"
	"time"

	mlog "github.com/google/martian/log"
	"github.com/rs/zerolog"
)

func main() {
	if len(os.Args) < 2 {
		fmt.Fprintln(os.Stderr, "usage: vh-http run|encode|cost")
		os.Exit(2)
	}
	mlog.SetLevel(mlog.Silent)
	zerolog.SetGlobalLevel(zerolog.Disabled)
	sc := bufio.NewScanner(os.Stdin)
	sc.Buffer(make([]byte, 1<<20), 1<<30)
	w := bufio.NewWriterSize(os.Stdout, 1<<20)
	defer w.Flush()
	enc := json.NewEncoder(w)
	for sc.Scan() {
		line := sc.Bytes()
		if len(line) == 0 {
			continue
		}
		var cs Case
		if err := json.Unmarshal(line, &cs); err != nil {
			enc.Encode(J{"error": "bad case: " + err.Error()})
			continue
		}
		var res J
		func() {
			defer func() {
				if x := recover(); x != nil {
					res = J{"id": cs.ID, "error": fmt.Sprint("harness: ", x)}
				}
			}()
			switch os.Args[1] {
			case "run":
				res = doRun(&cs)
			case "encode":
				res = doEncode(&cs)
			case "cost":
				res = doCost(&cs)
			default:
				os.Exit(2)
			}
		}()
		enc.Encode(res)
		w.Flush()
	}
}

func caseBytes(cs *Case) (c, s []byte, cends, sends []int, fields []FieldLoc) {
	switch cs.Kind {
	case "h1":
		co, so := encodeH1(cs.H1)
		c, s, cends, sends = co.buf.Bytes(), so.buf.Bytes(), co.ends, so.ends
		fields = append(co.fields, so.fields...)
	case "h2":
		co, so := encodeH2(cs.H2)
		c, s, cends, sends = co.buf.Bytes(), so.buf.Bytes(), co.ends, so.ends
		fields = append(co.fields, so.fields...)
	case "raw":
		c, s = unb64(cs.C), unb64(cs.S)
	default:
		panic("unknown case kind " + cs.Kind)
	}
	c = append([]byte(nil), c...)
	s = append([]byte(nil), s...)
	for _, m := range cs.Muts {
		t := &c
		if m.Side == "s" {
			t = &s
		}
		if m.Ins != "" || m.Del > 0 {
			if m.Off <= len(*t) {
				end := m.Off + m.Del
				if end > len(*t) {
					end = len(*t)
				}
				n := append([]byte(nil), (*t)[:m.Off]...)
				n = append(n, unb64(m.Ins)...)
				n = append(n, (*t)[end:]...)
				*t = n
			}
		} else if m.Off >= 0 && m.Off < len(*t) {
			(*t)[m.Off] = byte(m.Val)
		}
	}
	if cs.CutC != nil && *cs.CutC < len(c) {
		c = c[:*cs.CutC]
	}
	if cs.CutS != nil && *cs.CutS < len(s) {
		s = s[:*cs.CutS]
	}
	return
}

func doEncode(cs *Case) J {
	c, s, cends, sends, fields := caseBytes(cs)
	return J{"id": cs.ID, "c": base64.StdEncoding.EncodeToString(c), "s": base64.StdEncoding.EncodeToString(s),
		"fields": fields, "cends": cends, "sends": sends}
}

func doRun(cs *Case) J {
	c, s, cends, sends, _ := caseBytes(cs)
	c0 := append([]byte(nil), c...)
	s0 := append([]byte(nil), s...)
	out := runHalves(c, s, cs, cends, sends)
	items := []J{}
	for _, it := range out.Items {
		items = append(items, canonItem(it, cs.BodyLimit, !cs.NoStage))
	}
	res := J{"id": cs.ID, "c": out.C, "s": out.S, "items": items, "residue": out.Residue, "nc": len(c0), "ns": len(s0),
		"cap": []int{out.CapReq, out.CapResp, out.LeftC, out.LeftS}}
	if out.Timeout {
		res["timeout"] = true
	}
	if cs.WantBytes {
		res["cbytes"] = base64.StdEncoding.EncodeToString(c0)
		res["sbytes"] = base64.StdEncoding.EncodeToString(s0)
	}
	if cs.WantOracle {
		res["oc"] = oracleHalf(c0, true)
		res["os"] = oracleHalf(s0, false)
	}
	return res
}

func cpuNow() time.Duration {
	var ru syscall.Rusage
	syscall.Getrusage(syscall.RUSAGE_SELF, &ru)
	return time.Duration(ru.Utime.Nano() + ru.Stime.Nano())
}

// doCost: allocation (runtime.MemStats.TotalAlloc) and CPU time of Dissect on both halves plus
// the later stages of every emitted item.
func doCost(cs *Case) J {
	c, s, cends, sends, _ := caseBytes(cs)
	n := len(c) + len(s)
	runtime.GC()
	var m0, m1 runtime.MemStats
	runtime.ReadMemStats(&m0)
	t0 := cpuNow()
	w0 := time.Now()
	out := runHalves(c, s, cs, cends, sends)
	stage := "ok"
	for _, it := range out.Items {
		r := canonItem(it, 1, !cs.NoStage)
		if st, _ := r["stage"].(string); st != "ok" && st != "" {
			stage = st
		}
	}
	t1 := cpuNow()
	runtime.ReadMemStats(&m1)
	return J{"id": cs.ID, "n": n, "alloc": m1.TotalAlloc - m0.TotalAlloc, "cpu_ns": (t1 - t0).Nanoseconds(),
		"wall_ns": time.Since(w0).Nanoseconds(), "c": out.C, "s": out.S, "items": len(out.Items), "stage": stage,
		"timeout": out.Timeout}
}
