//go:build verif

package main

import (
	"bytes"
	"encoding/base64"
	"fmt"
	"strconv"
	"strings"

	"golang.org/x/net/http2"
	"golang.org/x/net/http2/hpack"
)

func unb64(s string) []byte {
	b, err := base64.StdEncoding.DecodeString(s)
	if err != nil {
		panic("bad base64 in case: " + err.Error())
	}
	return b
}

// ---------------------------------------------------------------------------- HTTP/1 (own encoder)

type h1out struct {
	buf    bytes.Buffer
	fields []FieldLoc
	ends   []int // offset after each message
	side   string
}

func (o *h1out) headers(hs [][2]string, framing string, pos int, bodyLen int) {
	if pos < 0 || pos > len(hs) {
		pos = len(hs)
	}
	for i := 0; i <= len(hs); i++ {
		if i == pos {
			switch framing {
			case "cl":
				o.buf.WriteString("Content-Length: ")
				v := strconv.Itoa(bodyLen)
				o.fields = append(o.fields, FieldLoc{Side: o.side, Kind: "cl", Off: o.buf.Len(), Len: len(v)})
				o.buf.WriteString(v)
				o.buf.WriteString("\r\n")
			case "chunked":
				o.buf.WriteString("Transfer-Encoding: chunked\r\n")
			}
		}
		if i < len(hs) {
			o.buf.WriteString(hs[i][0])
			o.buf.WriteString(": ")
			o.buf.WriteString(hs[i][1])
			o.buf.WriteString("\r\n")
		}
	}
	o.buf.WriteString("\r\n")
}

func (o *h1out) body(body []byte, framing string, chunks []int, ext, upper bool, trailers [][2]string) {
	switch framing {
	case "cl", "close":
		o.buf.Write(body)
	case "chunked":
		rest := body
		i := 0
		for len(rest) > 0 {
			n := len(rest)
			if i < len(chunks) && chunks[i] > 0 && chunks[i] < n {
				n = chunks[i]
			}
			i++
			v := strconv.FormatInt(int64(n), 16)
			if upper {
				v = strings.ToUpper(v)
			}
			o.fields = append(o.fields, FieldLoc{Side: o.side, Kind: "chunk", Off: o.buf.Len(), Len: len(v)})
			o.buf.WriteString(v)
			if ext {
				o.buf.WriteString(";x=1")
			}
			o.buf.WriteString("\r\n")
			o.buf.Write(rest[:n])
			o.buf.WriteString("\r\n")
			rest = rest[n:]
		}
		o.buf.WriteString("0\r\n")
		for _, t := range trailers {
			o.buf.WriteString(t[0] + ": " + t[1] + "\r\n")
		}
		o.buf.WriteString("\r\n")
	}
}

func encodeH1Request(o *h1out, e *Exchange) {
	proto := e.Proto
	if proto == "" {
		proto = "1.1"
	}
	fmt.Fprintf(&o.buf, "%s %s HTTP/%s\r\n", e.Method, e.Target, proto)
	body := unb64(e.ReqBody)
	o.headers(e.ReqHeaders, e.ReqFraming, e.ReqFramePos, len(body))
	o.body(body, e.ReqFraming, e.ReqChunks, e.ChunkExt, e.ChunkUpper, e.ReqTrailers)
	o.ends = append(o.ends, o.buf.Len())
}

func encodeH1Response(o *h1out, e *Exchange) {
	proto := e.RespProto
	if proto == "" {
		proto = "1.1"
	}
	for _, st := range e.Interim {
		fmt.Fprintf(&o.buf, "HTTP/%s %d Interim\r\nX-Interim: %d\r\n\r\n", proto, st, st)
	}
	fmt.Fprintf(&o.buf, "HTTP/%s %d %s\r\n", proto, e.Status, e.Reason)
	body := unb64(e.RespBody)
	o.headers(e.RespHeaders, e.RespFraming, e.RespFramePos, len(body))
	o.body(body, e.RespFraming, e.RespChunks, e.ChunkExt, e.ChunkUpper, nil)
	o.ends = append(o.ends, o.buf.Len())
}

func encodeH1(es []Exchange) (c, s *h1out) {
	c, s = &h1out{side: "c"}, &h1out{side: "s"}
	for i := range es {
		if !es[i].NoReq {
			encodeH1Request(c, &es[i])
		}
		if !es[i].NoResp {
			encodeH1Response(s, &es[i])
		}
	}
	finishFields(c)
	finishFields(s)
	return
}

func finishFields(o *h1out) {
	for i := range o.fields {
		o.fields[i].Rem = o.buf.Len() - o.fields[i].Off - o.fields[i].Len
	}
}

// ---------------------------------------------------------------------------- HTTP/2 (x/net Framer + hpack.Encoder)

func pieces(ps []Piece) []byte {
	var out []byte
	for _, p := range ps {
		if p.N > 0 {
			out = append(out, bytes.Repeat([]byte{byte(p.B)}, p.N)...)
		} else if p.Lit != "" {
			out = append(out, unb64(p.Lit)...)
		}
	}
	return out
}

func encodeH2Half(o *h1out, ops []FrameOp) {
	fr := http2.NewFramer(&o.buf, nil)
	fr.AllowIllegalWrites = true
	var hb bytes.Buffer
	he := hpack.NewEncoder(&hb)
	mark := func() int { return o.buf.Len() }
	var starts []int
	for _, op := range ops {
		start := mark()
		switch op.T {
		case "headers":
			hb.Reset()
			for i, f := range op.Fields {
				sens := false
				for _, k := range op.NoIdx {
					if k == i {
						sens = true
					}
				}
				he.WriteField(hpack.HeaderField{Name: f[0], Value: f[1], Sensitive: sens})
			}
			block := append([]byte(nil), hb.Bytes()...)
			var frags [][]byte
			prev := 0
			for _, c := range op.Split {
				if c > prev && c < len(block) {
					frags = append(frags, block[prev:c])
					prev = c
				}
			}
			frags = append(frags, block[prev:])
			p := http2.HeadersFrameParam{StreamID: op.Sid, BlockFragment: frags[0], EndStream: op.End,
				EndHeaders: len(frags) == 1, PadLength: uint8(op.Pad)}
			if op.Prio {
				p.Priority = http2.PriorityParam{StreamDep: 0, Weight: uint8(op.Val)}
				if p.Priority.IsZero() {
					p.Priority.Weight = 15
				}
			}
			must(fr.WriteHeaders(p))
			starts = append(starts, start)
			for i := 1; i < len(frags); i++ {
				starts = append(starts, mark())
				must(fr.WriteContinuation(op.Sid, i == len(frags)-1, frags[i]))
			}
			continue
		case "tablesize":
			he.SetMaxDynamicTableSize(op.Val)
			continue
		case "data":
			var pad []byte
			if op.Pad > 0 {
				pad = make([]byte, op.Pad)
			}
			must(fr.WriteDataPadded(op.Sid, op.End, pieces(op.Data), pad))
		case "settings":
			if op.Empty {
				must(fr.WriteSettings())
			} else if op.Hts != nil {
				must(fr.WriteSettings(http2.Setting{ID: http2.SettingInitialWindowSize, Val: 65535 + op.Val},
					http2.Setting{ID: http2.SettingHeaderTableSize, Val: *op.Hts}))
			} else {
				must(fr.WriteSettings(http2.Setting{ID: http2.SettingInitialWindowSize, Val: 65535 + op.Val}))
			}
		case "settings_ack":
			must(fr.WriteSettingsAck())
		case "ping":
			must(fr.WritePing(op.Ack, [8]byte{1, 2, 3, 4, 5, 6, 7, byte(op.Val)}))
		case "window_update":
			must(fr.WriteWindowUpdate(op.Sid, op.Val+1))
		case "priority":
			must(fr.WritePriority(op.Sid, http2.PriorityParam{StreamDep: 0, Weight: uint8(op.Val)}))
		case "rst":
			must(fr.WriteRSTStream(op.Sid, http2.ErrCode(op.Val)))
		case "goaway":
			must(fr.WriteGoAway(op.Sid, http2.ErrCode(op.Val), []byte("bye")))
		case "unknown":
			must(fr.WriteRawFrame(http2.FrameType(0x20+op.Val%16), 0, op.Sid, pieces(op.Data)))
		default:
			panic("unknown frame op " + op.T)
		}
		starts = append(starts, start)
	}
	for _, st := range starts {
		o.fields = append(o.fields, FieldLoc{Side: o.side, Kind: "h2len", Off: st, Len: 3})
	}
	o.ends = append(o.ends, starts...)
}

func must(err error) {
	if err != nil {
		panic(err)
	}
}

func encodeH2(sc *H2Script) (c, s *h1out) {
	c, s = &h1out{side: "c"}, &h1out{side: "s"}
	if sc.Mode == "h2c" && sc.Upgrade != nil {
		for i := range sc.Pre {
			encodeH1Request(c, &sc.Pre[i])
			encodeH1Response(s, &sc.Pre[i])
		}
		encodeH1Request(c, sc.Upgrade)
		encodeH1Response(s, sc.Upgrade)
	}
	c.buf.WriteString(http2.ClientPreface)
	encodeH2Half(c, sc.Client)
	encodeH2Half(s, sc.Server)
	for _, o := range []*h1out{c, s} {
		for i := range o.fields {
			if o.fields[i].Kind == "h2len" {
				o.fields[i].Rem = o.buf.Len() - o.fields[i].Off - 9
			} else {
				o.fields[i].Rem = o.buf.Len() - o.fields[i].Off - o.fields[i].Len
			}
		}
	}
	return
}
