//go:build verif

package main

import (
	"bufio"
	"fmt"
	"runtime"
	"runtime/debug"
	"sort"
	"strings"
	"sync"
	"time"

	"github.com/kubeshark/base/pkg/api"
	httpext "github.com/kubeshark/base/pkg/extensions/http"

	"verif/harness/mock"
)

var dissector = httpext.NewDissector()

const tailReadBudget = 3000 // reads answered by the tail before the half is declared non-terminating

// gated reader: a read happens only when the coordinator grants it (Sched), and a reader whose
// tail keeps failing gives up after tailReadBudget reads (outcome "hang" instead of a real hang).
type gate struct {
	arrive chan struct{}
	grant  chan struct{}
	done   chan struct{}
}

type hreader struct {
	*mock.Reader
	g         *gate
	total     int
	tailReads int
	hang      bool
}

func (r *hreader) Read(p []byte) (int, error) {
	if r.g != nil {
		r.g.arrive <- struct{}{}
		<-r.g.grant
	}
	n, err := r.Reader.Read(p)
	if n == 0 && err != nil {
		r.tailReads++
		if r.tailReads > tailReadBudget {
			r.hang = true
			runtime.Goexit()
		}
	}
	return n, err
}

type halfResult struct {
	Outcome string `json:"outcome"` // ok | err | panic | hang
	Site    string `json:"site,omitempty"`
	Reads   int64  `json:"reads"`
}

func cutsFor(data []byte, cuts []int, ends []int) [][]byte {
	if len(data) == 0 {
		return nil
	}
	if len(cuts) == 1 && cuts[0] == -1 {
		out := make([][]byte, len(data))
		for i := range data {
			out[i] = []byte{data[i]}
		}
		return out
	}
	if len(cuts) == 1 && cuts[0] == -2 {
		return mock.Split(data, ends)
	}
	c := append([]int(nil), cuts...)
	sort.Ints(c)
	return mock.Split(data, c)
}

func panicSite(stack string) string {
	// first frame below the panic machinery: "own" if in kubeshark/base, else the package path
	lines := strings.Split(stack, "\n")
	for _, l := range lines {
		l = strings.TrimSpace(l)
		if strings.HasPrefix(l, "github.com/kubeshark/base/") || strings.HasPrefix(l, "net/http") ||
			strings.HasPrefix(l, "golang.org/x/net") || strings.HasPrefix(l, "github.com/google/martian") ||
			strings.HasPrefix(l, "net/textproto") || strings.HasPrefix(l, "bufio.") || strings.HasPrefix(l, "net/url") {
			if i := strings.Index(l, "("); i > 0 {
				return l[:i]
			}
			return l
		}
	}
	return "?"
}

type runOut struct {
	C, S    halfResult
	Items   []*api.OutputChannelItem
	Residue []string
	Timeout bool
	// byte accounting (C20): capture sizes of all request / response messages (items and
	// matcher residue), what is left unread in each half's progress counter, bytes fed
	CapReq, CapResp, LeftC, LeftS, FedC, FedS int
}

func runHalves(cbytes, sbytes []byte, cs *Case, cends, sends []int) *runOut {
	matcher := dissector.NewResponseRequestMatcher()
	counter := &api.CounterPair{}
	stream := &mock.Stream{PcapId: "p"}
	col := &mock.Collector{}
	mk := func(isClient bool, data []byte, cuts []int, ends []int, tail int) *hreader {
		id := &api.TcpID{SrcIP: "10.0.0.1", DstIP: "10.0.0.2", SrcPort: "40000", DstPort: "80"}
		if !isClient {
			id = &api.TcpID{SrcIP: "10.0.0.2", DstIP: "10.0.0.1", SrcPort: "80", DstPort: "40000"}
		}
		return &hreader{Reader: &mock.Reader{Chunks: cutsFor(data, cuts, ends), TailKind: mock.Tail(tail), Matcher: matcher,
			IsClient: isClient, Progress: &api.ReadProgress{}, Parent: stream, TcpID: id, CounterPair: counter,
			CaptureTime: time.Unix(1600000000, 0).UTC(), Emitter: col}}
	}
	rc := mk(true, cbytes, cs.CCuts, cends, cs.CTail)
	rs := mk(false, sbytes, cs.SCuts, sends, cs.STail)
	out := &runOut{}
	runOne := func(r *hreader, res *halfResult, wg *sync.WaitGroup) {
		defer func() {
			if wg != nil {
				wg.Done()
			}
			if r.g != nil {
				close(r.g.done)
			}
		}()
		res.Outcome = "hang"
		defer func() {
			if x := recover(); x != nil {
				res.Outcome = "panic"
				res.Site = panicSite(string(debug.Stack()))
				_ = fmt.Sprint(x)
			}
			res.Reads = r.Reader.Reads
		}()
		err := dissector.Dissect(bufio.NewReader(r), r)
		if err != nil {
			res.Outcome = "err"
		} else {
			res.Outcome = "ok"
		}
	}
	watch := func(f func()) {
		done := make(chan struct{})
		go func() { defer close(done); f() }()
		select {
		case <-done:
		case <-time.After(60 * time.Second):
			out.Timeout = true
		}
	}
	if cs.Sched == "" {
		order := []*hreader{rc, rs}
		results := []*halfResult{&out.C, &out.S}
		if cs.First == "s" {
			order = []*hreader{rs, rc}
			results = []*halfResult{&out.S, &out.C}
		}
		for i := range order {
			r, res := order[i], results[i]
			watch(func() {
				var wg sync.WaitGroup
				wg.Add(1)
				go runOne(r, res, &wg) // own goroutine: Goexit of a failing reader ends only that goroutine
				wg.Wait()
			})
		}
	} else {
		rc.g = &gate{make(chan struct{}), make(chan struct{}), make(chan struct{})}
		rs.g = &gate{make(chan struct{}), make(chan struct{}), make(chan struct{})}
		go runOne(rc, &out.C, nil)
		go runOne(rs, &out.S, nil)
		watch(func() {
			arrived := map[byte]bool{}
			finished := map[byte]bool{}
			gates := map[byte]*gate{'c': rc.g, 's': rs.g}
			wait := func(x byte) { // until half x is parked at a read or finished
				if arrived[x] || finished[x] {
					return
				}
				select {
				case <-gates[x].arrive:
					arrived[x] = true
				case <-gates[x].done:
					finished[x] = true
				}
			}
			step := func(x byte) {
				wait(x)
				if finished[x] {
					return
				}
				arrived[x] = false
				gates[x].grant <- struct{}{}
				wait(x)
			}
			wait('c')
			wait('s')
			for i := 0; i < len(cs.Sched); i++ {
				step(cs.Sched[i])
			}
			for _, x := range []byte{'c', 's'} {
				for !finished[x] {
					step(x)
				}
			}
		})
	}
	if rc.hang {
		out.C.Outcome = "hang"
	}
	if rs.hang {
		out.S.Outcome = "hang"
	}
	out.Items = col.Items
	for _, it := range col.Items {
		out.CapReq += it.Pair.Request.CaptureSize
		out.CapResp += it.Pair.Response.CaptureSize
	}
	matcher.GetMap().Range(func(k, v interface{}) bool {
		out.Residue = append(out.Residue, k.(string))
		if gm, ok := v.(*api.GenericMessage); ok {
			if gm.IsRequest {
				out.CapReq += gm.CaptureSize
			} else {
				out.CapResp += gm.CaptureSize
			}
		}
		return true
	})
	fedOf := func(r *hreader) int {
		n := 0
		for _, c := range r.Reader.Chunks {
			n += len(c)
		}
		return n
	}
	_ = fedOf
	out.LeftC, out.LeftS = rc.Reader.Progress.Current(), rs.Reader.Progress.Current()
	sort.Strings(out.Residue)
	return out
}
