//go:build verif

package main

import (
	"bufio"
	"bytes"
	"encoding/base64"
	"io"
	"net/http"
	"sort"
	"strings"

	"golang.org/x/net/http2"
	"golang.org/x/net/http2/hpack"
)

// The library as oracle: what this program's OWN bufio / net/http / Framer calls return for the
// bytes of one half, in the order in which a dissector that follows the HTTP/1 -> h2c -> HTTP/2
// protocol switch asks for them.  The result is the input of the Coq model (coq/Http/HttpLoop.v):
// the model decides what the dissector does with each result.

func errClass(err error) string {
	switch err {
	case nil:
		return ""
	case io.EOF:
		return "eof"
	case io.ErrUnexpectedEOF:
		return "ueof"
	}
	return "other"
}

func b64s(s string) string { return base64.StdEncoding.EncodeToString([]byte(s)) }

func peekRep(r *bufio.Reader, n int) interface{} {
	p, err := r.Peek(n)
	if err != nil {
		return nil
	}
	return base64.StdEncoding.EncodeToString(p)
}

func more(r *bufio.Reader) bool {
	_, err := r.Peek(1)
	return err == nil
}

func hdrRep(h http.Header) [][]interface{} {
	keys := make([]string, 0, len(h))
	for k := range h {
		keys = append(keys, k)
	}
	sort.Strings(keys)
	out := [][]interface{}{}
	for _, k := range keys {
		vs := []string{}
		for _, v := range h[k] {
			vs = append(vs, b64s(v))
		}
		out = append(out, []interface{}{b64s(k), vs})
	}
	return out
}

func oracleHalf(data []byte, isClient bool) J {
	r := bufio.NewReader(bytes.NewReader(data))
	pre := len(http2.ClientPreface)
	if !isClient {
		pre = 9
	}
	res := J{"first": peekRep(r, pre)}
	isH2 := false
	if p, err := r.Peek(pre); err == nil {
		if isClient {
			isH2 = string(p) == http2.ClientPreface
		} else {
			isH2 = !bytes.HasPrefix(p, []byte("HTTP/1.")) && p[3] == 4
		}
	}
	if isH2 && isClient {
		r.Discard(pre)
	}
	evs := []J{}
	var fr *http2.Framer
	newFramer := func() {
		fr = http2.NewFramer(io.Discard, r)
		fr.ReadMetaHeaders = hpack.NewDecoder(4096, nil)
	}
	if isH2 {
		newFramer()
	}
	for n := 0; n < 300000; n++ {
		if isH2 {
			f, err := fr.ReadFrame()
			if err != nil {
				c := errClass(err)
				m := more(r)
				evs = append(evs, J{"t": "E", "e": c, "more": m})
				if c != "other" || !m {
					break
				}
				continue
			}
			ev := J{"t": "F"}
			switch f := f.(type) {
			case *http2.MetaHeadersFrame:
				fs := [][2]string{}
				for _, hf := range f.Fields {
					fs = append(fs, [2]string{b64s(hf.Name), b64s(hf.Value)})
				}
				ev["k"], ev["sid"], ev["f"], ev["es"] = "H", f.StreamID, fs, f.StreamEnded()
			case *http2.DataFrame:
				ev["k"], ev["sid"], ev["d"], ev["es"] = "D", f.StreamID, base64.StdEncoding.EncodeToString(f.Data()), f.StreamEnded()
			default:
				ev["k"], ev["sid"] = "O", f.Header().StreamID
			}
			ev["more"] = more(r)
			evs = append(evs, ev)
			continue
		}
		var err, berr error
		ev := J{"t": "M"}
		up := false
		if isClient {
			var req *http.Request
			req, err = http.ReadRequest(r)
			if err == nil {
				up = strings.Contains(strings.ToLower(req.Header.Get("Connection")), "upgrade") && strings.ToLower(req.Header.Get("Upgrade")) == "h2c"
				_, berr = io.ReadAll(req.Body)
				ev["method"], ev["minor"], ev["hdr"] = b64s(req.Method), req.ProtoMinor, hdrRep(req.Header)
			}
		} else {
			var resp *http.Response
			resp, err = http.ReadResponse(r, nil)
			if err == nil {
				up = resp.StatusCode == 101 && strings.Contains(strings.ToLower(resp.Header.Get("Connection")), "upgrade") && strings.ToLower(resp.Header.Get("Upgrade")) == "h2c"
				_, berr = io.ReadAll(resp.Body)
				ev["status"], ev["minor"], ev["hdr"] = resp.StatusCode, resp.ProtoMinor, hdrRep(resp.Header)
			}
		}
		if err != nil {
			c := errClass(err)
			m := more(r)
			evs = append(evs, J{"t": "E", "e": c, "more": m})
			if c != "other" || !m {
				break
			}
			continue
		}
		ev["berr"] = errClass(berr)
		ev["more"] = more(r)
		ev["next"] = peekRep(r, pre)
		ev["up"] = up
		evs = append(evs, ev)
		bc := errClass(berr)
		if bc == "eof" || bc == "ueof" || (bc == "other" && !ev["more"].(bool)) {
			break
		}
		if up {
			p, perr := r.Peek(pre)
			if perr != nil {
				break
			}
			if isClient {
				if string(p) != http2.ClientPreface {
					break
				}
				r.Discard(pre)
				isH2 = true
			} else {
				isH2 = !bytes.HasPrefix(p, []byte("HTTP/1.")) && p[3] == 4
			}
			if isH2 {
				newFramer()
			}
		}
	}
	res["ev"] = evs
	return res
}
