//go:build verif

package main

import (
	"bufio"
	"bytes"
	"encoding/base64"
	"io"
	"net/http"
	"strings"

	"golang.org/x/net/http2"
	"golang.org/x/net/http2/hpack"
)

// The library as oracle: what this program's OWN framer / net/http calls return for the bytes of
// one half.  The result is the abstract input of the Coq model (frames, message boundaries, error
// classes); the model itself decides what the dissector does with them.

func errClass(err error) string {
	switch err {
	case nil:
		return ""
	case io.EOF:
		return "eof"
	case io.ErrUnexpectedEOF:
		return "ueof"
	}
	return "other"
}

// oracleFrames decodes an HTTP/2 frame sequence with an own Framer + HPACK decoder.
func oracleFrames(r *bufio.Reader, limit int) []J {
	var out []J
	fr := http2.NewFramer(io.Discard, r)
	fr.ReadMetaHeaders = hpack.NewDecoder(4096, nil)
	for n := 0; n < 200000; n++ {
		f, err := fr.ReadFrame()
		if err != nil {
			c := errClass(err)
			out = append(out, J{"t": "E", "e": c})
			if c != "other" {
				break
			}
			if _, perr := r.Peek(1); perr != nil && perr != io.EOF {
				break
			}
			continue
		}
		switch f := f.(type) {
		case *http2.MetaHeadersFrame:
			fs := [][2]string{}
			for _, hf := range f.Fields {
				fs = append(fs, [2]string{b64s(hf.Name), b64s(hf.Value)})
			}
			out = append(out, J{"t": "H", "sid": f.StreamID, "f": fs, "es": f.StreamEnded()})
		case *http2.DataFrame:
			out = append(out, J{"t": "D", "sid": f.StreamID, "d": base64.StdEncoding.EncodeToString(f.Data()), "es": f.StreamEnded()})
		default:
			out = append(out, J{"t": "O", "sid": f.Header().StreamID})
		}
	}
	return out
}

func b64s(s string) string { return base64.StdEncoding.EncodeToString([]byte(s)) }

// oracleHalf: the sequence of library results one half of a connection yields: the preface peek,
// HTTP/1 messages (own http.ReadRequest / ReadResponse calls, body drained), then frames.
func oracleHalf(data []byte, isClient bool, limit int) J {
	r := bufio.NewReader(bytes.NewReader(data))
	res := J{}
	isH2 := false
	if isClient {
		p, err := r.Peek(len(http2.ClientPreface))
		res["peek"] = errClass(err)
		isH2 = err == nil && string(p) == http2.ClientPreface
	} else {
		p, err := r.Peek(9)
		res["peek"] = errClass(err)
		isH2 = err == nil && !bytes.HasPrefix(p, []byte("HTTP/1.")) && p[3] == 4
	}
	res["h2"] = isH2
	msgs := []J{}
	for !isH2 {
		var up bool
		var err error
		m := J{}
		if isClient {
			var req *http.Request
			req, err = http.ReadRequest(r)
			if err == nil {
				up = strings.Contains(strings.ToLower(req.Header.Get("Connection")), "upgrade") && strings.ToLower(req.Header.Get("Upgrade")) == "h2c"
				_, berr := io.ReadAll(req.Body)
				m = J{"t": "req", "up": up, "minor": req.ProtoMinor, "berr": errClass(berr)}
			}
		} else {
			var resp *http.Response
			resp, err = http.ReadResponse(r, nil)
			if err == nil {
				up = resp.StatusCode == 101 && strings.Contains(strings.ToLower(resp.Header.Get("Connection")), "upgrade") && strings.ToLower(resp.Header.Get("Upgrade")) == "h2c"
				_, berr := io.ReadAll(resp.Body)
				m = J{"t": "res", "up": up, "minor": resp.ProtoMinor, "berr": errClass(berr), "status": resp.StatusCode}
			}
		}
		if err != nil {
			c := errClass(err)
			msgs = append(msgs, J{"t": "E", "e": c})
			if c != "other" {
				break
			}
			if _, perr := r.Peek(1); perr != nil && perr != io.EOF {
				break
			}
			if len(msgs) > 100000 {
				break
			}
			continue
		}
		msgs = append(msgs, m)
		if up {
			// what the two checks after the switch see
			if isClient {
				p, err := r.Peek(len(http2.ClientPreface))
				m["peek2"] = errClass(err)
				m["pre2"] = err == nil && string(p) == http2.ClientPreface
				if err == nil && string(p) == http2.ClientPreface {
					r.Discard(len(http2.ClientPreface))
					isH2 = true
				}
			} else {
				p, err := r.Peek(9)
				m["peek2"] = errClass(err)
				m["pre2"] = err == nil && !bytes.HasPrefix(p, []byte("HTTP/1.")) && p[3] == 4
				if err == nil {
					isH2 = m["pre2"].(bool)
				}
			}
			if !isH2 && (isClient || m["peek2"] != "") {
				res["stopped_after_upgrade"] = true
				break
			}
		}
	}
	res["msgs"] = msgs
	if isH2 {
		if isClient && len(msgs) == 0 {
			r.Discard(len(http2.ClientPreface))
		}
		res["frames"] = oracleFrames(r, limit)
	}
	return res
}
