//go:build verif

package main

import (
	"crypto/sha1"
	"encoding/base64"
	"encoding/hex"
	"encoding/json"
	"fmt"
	"runtime/debug"
	"time"

	"github.com/kubeshark/base/pkg/api"
	stg "verif/harness/stage"
)

type J = map[string]interface{}

func nvList(v interface{}) [][2]string {
	out := [][2]string{}
	l, _ := v.([]interface{})
	for _, e := range l {
		m, _ := e.(map[string]interface{})
		n, _ := m["name"].(string)
		val, _ := m["value"].(string)
		out = append(out, [2]string{n, val})
	}
	return out
}

func bodyRep(b []byte, limit int) J {
	h := sha1.Sum(b)
	r := J{"n": len(b), "h": hex.EncodeToString(h[:])}
	if limit == 0 {
		limit = 1 << 16
	}
	if len(b) <= limit || limit < 0 {
		r["b64"] = base64.StdEncoding.EncodeToString(b)
	}
	return r
}

func guard(stage string, f func()) (res string) {
	defer func() {
		if x := recover(); x != nil {
			res = "panic:" + stage + ":" + panicSite(string(debug.Stack())) + ":" + fmt.Sprint(x)
		}
	}()
	f()
	return ""
}

// canonItem projects one emitted item on the property-relevant observables and pushes it through
// json.Marshal -> Unmarshal -> Analyze -> Marshal/Unmarshal -> Summarize / Represent.
func canonItem(item *api.OutputChannelItem, limit int, stage bool) J {
	out := J{}
	out["proto"] = []string{item.Protocol.Name, item.Protocol.Version, item.Protocol.Abbreviation}
	if ci := item.ConnectionInfo; ci != nil {
		out["ci"] = []interface{}{ci.ClientIP, ci.ClientPort, ci.ServerIP, ci.ServerPort, ci.IsOutgoing}
	}
	t0 := time.Now()
	var raw []byte
	var err error
	if p := guard("marshal", func() { raw, err = json.Marshal(item) }); p != "" {
		out["stage"] = p
		return out
	}
	if err != nil {
		out["stage"] = "marshal-error"
		return out
	}
	out["size"] = len(raw)
	var g J
	if err := json.Unmarshal(raw, &g); err != nil {
		out["stage"] = "unmarshal-error"
		return out
	}
	pair, _ := g["Pair"].(map[string]interface{})
	reqm, _ := pair["request"].(map[string]interface{})
	resm, _ := pair["response"].(map[string]interface{})
	rp, _ := reqm["payload"].(map[string]interface{})
	sp, _ := resm["payload"].(map[string]interface{})
	rd, _ := rp["details"].(map[string]interface{})
	sd, _ := sp["details"].(map[string]interface{})
	req := J{"method": rd["method"], "url": rd["url"], "ver": rd["httpVersion"], "headers": nvList(rd["headers"]),
		"cookies": nvList(rd["cookies"]), "query": nvList(rd["queryString"]), "wmethod": rp["method"]}
	if pd, ok := rd["postData"].(map[string]interface{}); ok {
		req["hasPost"] = true
		req["mime"] = pd["mimeType"]
		req["params"] = nvList(pd["params"])
		text, _ := pd["text"].(string)
		tb := []byte(text)
		if enc, _ := pd["encoding"].(string); enc == "base64" {
			tb, _ = base64.StdEncoding.DecodeString(text)
		}
		req["text"] = bodyRep(tb, limit)
	} else {
		req["hasPost"] = false
	}
	out["req"] = req
	res := J{"status": sd["status"], "ver": sd["httpVersion"], "headers": nvList(sd["headers"]), "cookies": nvList(sd["cookies"]),
		"statusText": sd["statusText"]}
	if ct, ok := sd["content"].(map[string]interface{}); ok {
		res["mime"] = ct["mimeType"]
		res["encoding"] = ct["encoding"]
		text, _ := ct["text"].(string)
		tb, _ := base64.StdEncoding.DecodeString(text)
		res["text"] = bodyRep(tb, limit)
	}
	out["res"] = res
	if !stage {
		return out
	}

	// the entry's own queries and every macro (C16), through the shared stage pipeline
	c16 := stg.Run(&api.Extension{Dissector: dissector}, item, false)
	c16.Micros, c16.ItemBytes = 0, 0 // items are compared across runs and segmentations: no timings or capture-size dependent lengths inside
	out["c16"] = c16

	// the later stages, as the worker and hub run them
	var it api.OutputChannelItem
	if err := json.Unmarshal(raw, &it); err != nil {
		out["stage"] = "item-unmarshal-error"
		return out
	}
	var entry *api.Entry
	if p := guard("analyze", func() { entry = dissector.Analyze(&it, &api.Resolution{}, &api.Resolution{}) }); p != "" {
		out["stage"] = p
		return out
	}
	eb, err := json.Marshal(entry)
	if err != nil {
		out["stage"] = "entry-marshal-error"
		return out
	}
	var e2 api.Entry
	if err := json.Unmarshal(eb, &e2); err != nil {
		out["stage"] = "entry-unmarshal-error"
		return out
	}
	an := J{"path": e2.Request["path"], "segs": e2.Request["pathSegments"], "query": e2.Request["queryString"],
		"reqHeaders": e2.Request["headers"], "resHeaders": e2.Response["headers"], "reqCookies": e2.Request["cookies"],
		"resCookies": e2.Response["cookies"], "method": e2.Request["method"], "url": e2.Request["url"],
		"targetUri": e2.Request["targetUri"], "status": e2.Response["status"],
		"proto": []string{e2.Protocol.Name, e2.Protocol.Version, e2.Protocol.Abbreviation}, "outgoing": e2.Outgoing}
	out["an"] = an
	var base *api.BaseEntry
	if p := guard("summarize", func() { base = dissector.Summarize(&e2) }); p != "" {
		out["stage"] = p
		return out
	}
	if _, err := json.Marshal(base); err != nil {
		out["stage"] = "summary-marshal-error"
		return out
	}
	out["sum"] = J{"summary": base.Summary, "method": base.Method, "status": base.Status,
		"summaryQuery": base.SummaryQuery, "methodQuery": base.MethodQuery, "statusQuery": base.StatusQuery}
	var rep []byte
	if p := guard("represent", func() { rep, err = dissector.Represent(e2.Request, e2.Response) }); p != "" {
		out["stage"] = p
		return out
	}
	if err != nil {
		out["stage"] = "represent-error"
		return out
	}
	if why := checkRepresentation(rep); why != "" {
		out["stage"] = "represent-malformed:" + why
		return out
	}
	out["stage"] = "ok"
	out["stage_ns"] = time.Since(t0).Nanoseconds()
	out["rep_size"] = len(rep)
	return out
}

// checkRepresentation: valid JSON object whose "request" and "response" are lists of sections of type
// table (data = JSON list of {name,value,selector}) or body (data = string).
func checkRepresentation(rep []byte) string {
	var obj map[string]json.RawMessage
	if err := json.Unmarshal(rep, &obj); err != nil {
		return "not-an-object"
	}
	for _, k := range []string{"request", "response"} {
		rawl, ok := obj[k]
		if !ok {
			return "missing-" + k
		}
		var secs []map[string]interface{}
		if err := json.Unmarshal(rawl, &secs); err != nil {
			return k + "-not-a-list-of-sections"
		}
		for _, s := range secs {
			typ, _ := s["type"].(string)
			data, ok := s["data"].(string)
			if !ok {
				return k + "-section-without-data"
			}
			if _, ok := s["title"].(string); !ok {
				return k + "-section-without-title"
			}
			switch typ {
			case api.TABLE:
				var rows []map[string]interface{}
				if err := json.Unmarshal([]byte(data), &rows); err != nil {
					return k + "-table-does-not-parse"
				}
				for _, r := range rows {
					if _, ok := r["name"].(string); !ok {
						return k + "-table-row-without-name"
					}
				}
			case api.BODY:
			default:
				return k + "-section-type-" + typ
			}
		}
	}
	return ""
}
