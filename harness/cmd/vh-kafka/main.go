//go:build verif

// vh-kafka: harness commands for the Kafka dissector (C06, and the Kafka share of C01 C02 C08 C11).
//
//	gen <seed> <tier>        conversations from the independent encoder (one JSON object per line)
//	run                      stdin: one case per line {"c":hex,"s":hex,"cc":[cuts],"sc":[cuts],"tail":0|1|2,"order":"cs"}
//	                         stdout: one result per line (outcome class per half, items, matcher residue)
//	cost                     same input; adds TotalAlloc / CPU per case (run it in a child under a memory limit)
//	stage                    same input; every item through json -> Analyze -> json -> Summarize / Represent
//	schemas                  impl and spec wire types of every (api, version, direction) as JSON
package main

import (
	"bufio"
	"encoding/hex"
	"encoding/json"
	"fmt"
	"math/rand"
	"os"
	"reflect"
	"runtime"
	"runtime/debug"
	"strconv"
	"strings"
	"syscall"
	"time"

	"github.com/kubeshark/base/pkg/api"
	"github.com/kubeshark/base/pkg/extensions/kafka"
	stg "verif/harness/stage"

	"verif/harness/kobs"
	"verif/harness/kty"
	"verif/harness/mock"
)

func main() {
	if len(os.Args) < 2 {
		fmt.Fprintln(os.Stderr, "usage: vh-kafka gen|run|cost|stage|schemas ...")
		os.Exit(2)
	}
	switch os.Args[1] {
	case "gen":
		genMain(os.Args[2:])
	case "run":
		runMain("run")
	case "cost":
		runMain("cost")
	case "stage":
		runMain("stage")
	case "schemas":
		schemasMain()
	case "impl-layouts":
		implLayoutsMain()
	default:
		os.Exit(2)
	}
}

// ---------------------------------------------------------------------------------------------
// gen

type Conversation struct {
	Name   string     `json:"name"`
	Kind   string     `json:"kind"`
	Exch   []Exchange `json:"exch"`
	Order  []int      `json:"resp_order"` // order of the responses on the server half (indices into exch)
	Client string     `json:"client"`     // hex of the client half
	Server string     `json:"server"`     // hex of the server half
	ReqAt  []int      `json:"req_at"`     // offset of each request frame in the client half
	RespAt []int      `json:"resp_at"`    // offset of each response frame in the server half
}

func assemble(name, kind string, ex []Exchange, order []int) Conversation {
	c := Conversation{Name: name, Kind: kind, Exch: ex, Order: order}
	var cb, sb []byte
	c.ReqAt = make([]int, len(ex))
	c.RespAt = make([]int, len(ex))
	for i, e := range ex {
		b, _ := hex.DecodeString(e.ReqHex)
		c.ReqAt[i] = len(cb)
		cb = append(cb, b...)
	}
	for _, i := range order {
		b, _ := hex.DecodeString(ex[i].RespHex)
		c.RespAt[i] = len(sb)
		sb = append(sb, b...)
	}
	c.Client, c.Server = hex.EncodeToString(cb), hex.EncodeToString(sb)
	return c
}

func genMain(args []string) {
	seed, _ := strconv.ParseInt(args[0], 10, 64)
	tier := "quick"
	if len(args) > 1 {
		tier = args[1]
	}
	rng := rand.New(rand.NewSource(seed))
	w := bufio.NewWriterSize(os.Stdout, 1<<20)
	defer w.Flush()
	enc := json.NewEncoder(w)
	corr := int32(100)
	nextCorr := func() int32 { corr += int32(1 + rng.Intn(3)); return corr }
	sentinelAPI := apiByKey(18)
	fail := func(err error) {
		fmt.Fprintln(os.Stderr, "gen:", err)
		os.Exit(1)
	}
	small := genCfg{rng: rng, maxArr: 2, strLens: []int{0, 1, 3, 8}, recLens: []int{0, 1, 5, 20}, maxRecs: 2, nulls: true}
	wide := genCfg{rng: rng, maxArr: 3, strLens: []int{0, 1, 2, 7, 17, 63, 64, 127, 128, 300}, recLens: []int{0, 1, 10, 62, 63, 64, 65, 126, 127, 128, 129, 300}, maxRecs: 3, nulls: true, binary: true}
	one := genCfg{rng: rng, minArr: 1, maxArr: 1, strLens: []int{1, 4, 9}, recLens: []int{1, 4, 30}, maxRecs: 1, nulls: false}
	sentinel := func() Exchange {
		e, err := buildExchange(small, sentinelAPI, 0, nextCorr(), "sentinel", true)
		if err != nil {
			fail(err)
		}
		return e
	}
	inOrder := func(n int) []int {
		o := make([]int, n)
		for i := range o {
			o[i] = i
		}
		return o
	}
	reps := 2
	if tier != "quick" {
		reps = 12
	}
	// (1) every supported api at every version of the encoder's range, each followed by a sentinel
	for _, sa := range kobs.Supported {
		a := apiByKey(sa.Key)
		lo, hi := versionRange(a)
		for v := lo; v <= hi; v++ {
			for rep := 0; rep < reps+1; rep++ {
				cfg := wide
				kind := "grid"
				if rep == 0 {
					cfg = one // every array has exactly one element, no nulls
					kind = "grid-one"
				} else if rep == 1 {
					cfg = small
				}
				e, err := buildExchange(cfg, a, v, nextCorr(), "client-"+a.Name, false)
				if err != nil {
					fail(err)
				}
				ex := []Exchange{e, sentinel()}
				enc.Encode(assemble(fmt.Sprintf("%s-v%d-%d", a.Name, v, rep), kind, ex, inOrder(2)))
			}
		}
	}
	// (1b) every defined error code (-1 .. 120) in every error-code field of the responses: ApiVersions at every version,
	// the other supported apis at their highest version
	for _, sa := range kobs.Supported {
		a := apiByKey(sa.Key)
		lo, hi := versionRange(a)
		vs := []int16{hi}
		if a.Name == "ApiVersions" {
			vs = nil
			for v := lo; v <= hi; v++ {
				vs = append(vs, v)
			}
		}
		for _, v := range vs {
			for code := int16(-1); code <= 120; code++ {
				if tier == "quick" && a.Name != "ApiVersions" && code%4 != 3 {
					continue
				}
				cfg := one
				c := code
				cfg.errCode = &c
				e, err := buildExchange(cfg, a, v, nextCorr(), "client-"+a.Name, false)
				if err != nil {
					fail(err)
				}
				enc.Encode(assemble(fmt.Sprintf("%s-v%d-err%d", a.Name, v, code), "errcode", []Exchange{e, sentinel()}, inOrder(2)))
			}
		}
	}
	// (2) several requests in flight, unsupported apis interleaved, responses possibly reordered
	nmix := 12
	if tier != "quick" {
		nmix = 120
	}
	for k := 0; k < nmix; k++ {
		var ex []Exchange
		n := 2 + rng.Intn(4)
		for i := 0; i < n; i++ {
			var a *specMsg
			if rng.Intn(3) == 0 {
				a = &unsupportedAPIs[rng.Intn(len(unsupportedAPIs))]
			} else {
				a = apiByKey(kobs.Supported[rng.Intn(len(kobs.Supported))].Key)
			}
			lo, hi := versionRange(a)
			v := lo + int16(rng.Intn(int(hi-lo)+1))
			cfg := small
			if rng.Intn(2) == 0 {
				cfg = wide
			}
			e, err := buildExchange(cfg, a, v, nextCorr(), []string{"", "c", "consumer-1", "a b"}[rng.Intn(4)], false)
			if err != nil {
				fail(err)
			}
			ex = append(ex, e, sentinel())
		}
		order := inOrder(len(ex))
		kind := "mix"
		if k%3 == 2 {
			rng.Shuffle(len(order), func(i, j int) { order[i], order[j] = order[j], order[i] })
			kind = "mix-reordered"
		}
		enc.Encode(assemble(fmt.Sprintf("mix-%d", k), kind, ex, order))
	}
	// (3) unsupported api first, then a sentinel (the D27 witness shape)
	for i := range unsupportedAPIs {
		a := &unsupportedAPIs[i]
		lo, _ := versionRange(a)
		e, err := buildExchange(small, a, lo, nextCorr(), "c", false)
		if err != nil {
			fail(err)
		}
		enc.Encode(assemble("unsupported-"+a.Name, "unsupported-first", []Exchange{e, sentinel()}, inOrder(2)))
	}
}

// ---------------------------------------------------------------------------------------------
// run / cost / stage

type Case struct {
	C     string `json:"c"`
	S     string `json:"s"`
	CC    []int  `json:"cc"`
	SC    []int  `json:"sc"`
	Tail  int    `json:"tail"`
	Order string `json:"order"`
}

type ItemOut struct {
	Api    int             `json:"api"`
	Name   string          `json:"name"`
	Ver    int             `json:"ver"`
	Corr   int             `json:"corr"`
	Client string          `json:"client"`
	Size   int             `json:"size"`
	RSize  int             `json:"rsize"`
	RCorr  int             `json:"rcorr"`
	ReqT   string          `json:"reqT"`
	RespT  string          `json:"respT"`
	Req    json.RawMessage `json:"req"`
	Resp   json.RawMessage `json:"resp"`
	CapReq int             `json:"capReq"`
	CapRes int             `json:"capResp"`
	Method string          `json:"method"`
}

type StageOut struct {
	Ok           bool        `json:"ok"`
	Panic        string      `json:"panic,omitempty"`
	Where        string      `json:"where,omitempty"`
	Summary      string      `json:"summary"`
	SummaryQuery string      `json:"summaryQuery"`
	Method       string      `json:"method"`
	MethodQuery  string      `json:"methodQuery"`
	RepBytes     int         `json:"repBytes"`
	EntryBytes   int         `json:"entryBytes"`
	Topics       []string    `json:"topics"`
	C16          *stg.Result `json:"c16,omitempty"`
}

type RunOut struct {
	CO      string     `json:"co"`
	SO      string     `json:"so"`
	Panic   string     `json:"panic,omitempty"`
	Items   []ItemOut  `json:"items"`
	Residue []string   `json:"residue"`
	Alloc   uint64     `json:"alloc,omitempty"`
	CpuUs   int64      `json:"cpu_us,omitempty"`
	Bytes   int        `json:"n,omitempty"`
	Stages  []StageOut `json:"stages,omitempty"`
}

func typeName(p interface{}) (string, json.RawMessage) {
	if p == nil {
		return "", json.RawMessage("null")
	}
	v := reflect.ValueOf(p)
	if v.Kind() == reflect.Ptr {
		if v.IsNil() {
			return v.Type().String(), json.RawMessage("null")
		}
		v = v.Elem()
	}
	return v.Type().Name(), json.RawMessage(kty.ImplVal(v).JSON())
}

func itemOut(it *api.OutputChannelItem) ItemOut {
	req, resp, ok := kobs.ItemParts(it)
	if !ok {
		return ItemOut{Api: -1, Name: "?"}
	}
	o := ItemOut{Api: int(req.ApiKey), Name: req.ApiKeyName, Ver: int(req.ApiVersion), Corr: int(req.CorrelationID),
		Client: hex.EncodeToString([]byte(req.ClientID)), Size: int(req.Size), RSize: int(resp.Size), RCorr: int(resp.CorrelationID),
		CapReq: it.Pair.Request.CaptureSize, CapRes: it.Pair.Response.CaptureSize}
	o.ReqT, o.Req = typeName(req.Payload)
	o.RespT, o.Resp = typeName(resp.Payload)
	if w, ok := it.Pair.Request.Payload.(kafka.KafkaPayload).Data.(*kafka.KafkaWrapper); ok {
		o.Method = w.Method
	}
	return o
}

func cpuUs() int64 {
	var ru syscall.Rusage
	syscall.Getrusage(syscall.RUSAGE_SELF, &ru)
	return ru.Utime.Sec*1e6 + int64(ru.Utime.Usec) + ru.Stime.Sec*1e6 + int64(ru.Stime.Usec)
}

func runMain(mode string) {
	if mode == "cost" {
		// hard stop well before the address-space limit of the child is reached
		debug.SetGCPercent(100)
		go func() {
			var ms runtime.MemStats
			for {
				time.Sleep(20 * time.Millisecond)
				runtime.ReadMemStats(&ms)
				if ms.HeapAlloc > 3<<30 {
					fmt.Println(`{"co":"oom","so":"oom","items":[],"residue":[]}`)
					os.Exit(3)
				}
			}
		}()
	}
	sc := bufio.NewScanner(os.Stdin)
	sc.Buffer(make([]byte, 1<<20), 1<<28)
	w := bufio.NewWriterSize(os.Stdout, 1<<20)
	defer w.Flush()
	for sc.Scan() {
		line := strings.TrimSpace(sc.Text())
		if line == "" {
			continue
		}
		var c Case
		if err := json.Unmarshal([]byte(line), &c); err != nil {
			fmt.Fprintln(w, `{"co":"badcase","so":"badcase","items":[],"residue":[]}`)
			continue
		}
		cb, _ := hex.DecodeString(c.C)
		sb, _ := hex.DecodeString(c.S)
		var ms0, ms1 runtime.MemStats
		var t0 int64
		if mode == "cost" {
			runtime.ReadMemStats(&ms0)
			t0 = cpuUs()
		}
		done := make(chan kobs.Result, 1)
		go func() {
			done <- kobs.Run(kobs.Half{Data: cb, Cuts: c.CC, Tail: mock.Tail(c.Tail)}, kobs.Half{Data: sb, Cuts: c.SC, Tail: mock.Tail(c.Tail)}, c.Order, 5)
		}()
		var r kobs.Result
		select {
		case r = <-done:
		case <-time.After(60 * time.Second):
			fmt.Fprintln(w, `{"co":"timeout","so":"timeout","items":[],"residue":[]}`)
			w.Flush()
			os.Exit(4) // the stuck goroutine cannot be stopped; the caller restarts after this case
		}
		out := RunOut{CO: r.ClientOutcome, SO: r.ServerOutcome, Panic: r.Panic, Residue: r.Residue, Items: []ItemOut{}}
		if out.Residue == nil {
			out.Residue = []string{}
		}
		if mode == "stage" || mode == "cost" {
			for _, it := range r.Items {
				so := stages(it)
				if mode == "stage" {
					sr := stg.Run(&api.Extension{Dissector: kafka.NewDissector()}, it, false)
					so.C16 = &sr
				}
				out.Stages = append(out.Stages, so)
			}
		}
		if mode == "cost" {
			runtime.ReadMemStats(&ms1)
			out.Alloc = ms1.TotalAlloc - ms0.TotalAlloc
			out.CpuUs = cpuUs() - t0
			out.Bytes = len(cb) + len(sb)
		}
		if mode != "cost" {
			for _, it := range r.Items {
				out.Items = append(out.Items, itemOut(it))
			}
		} else {
			out.Items = make([]ItemOut, len(r.Items)) // count only
			for i := range out.Items {
				out.Items[i] = ItemOut{Api: -2}
			}
		}
		b, _ := json.Marshal(out)
		w.Write(b)
		w.WriteByte('\n')
		if mode == "cost" {
			w.Flush()
		}
	}
}

// stages pushes an emitted item through the JSON round trips and the later stages, as the worker
// and the hub do: Marshal(item) -> Unmarshal -> Analyze -> Marshal(entry) -> Unmarshal -> Summarize, Represent.
func stages(it *api.OutputChannelItem) (out StageOut) {
	where := "marshal-item"
	defer func() {
		if p := recover(); p != nil {
			out.Ok = false
			out.Panic = fmt.Sprint(p)
			out.Where = where
		}
	}()
	d := kafka.NewDissector()
	b, err := json.Marshal(it)
	if err != nil {
		return StageOut{Where: where, Panic: "error: " + err.Error()}
	}
	where = "unmarshal-item"
	var it2 api.OutputChannelItem
	if err := json.Unmarshal(b, &it2); err != nil {
		return StageOut{Where: where, Panic: "error: " + err.Error()}
	}
	where = "analyze"
	entry := d.Analyze(&it2, &api.Resolution{IP: "10.0.0.1", Port: "40000"}, &api.Resolution{IP: "10.0.0.2", Port: "9092"})
	where = "marshal-entry"
	eb, err := json.Marshal(entry)
	if err != nil {
		return StageOut{Where: where, Panic: "error: " + err.Error()}
	}
	where = "unmarshal-entry"
	var e2 api.Entry
	if err := json.Unmarshal(eb, &e2); err != nil {
		return StageOut{Where: where, Panic: "error: " + err.Error()}
	}
	where = "summarize"
	base := d.Summarize(&e2)
	where = "marshal-base"
	if _, err := json.Marshal(base); err != nil {
		return StageOut{Where: where, Panic: "error: " + err.Error()}
	}
	where = "represent"
	rep, err := d.Represent(e2.Request, e2.Response)
	if err != nil {
		return StageOut{Where: where, Panic: "error: " + err.Error()}
	}
	where = "representation-form"
	var obj map[string][]api.SectionData
	if err := json.Unmarshal(rep, &obj); err != nil {
		return StageOut{Where: where, Panic: "error: " + err.Error()}
	}
	for _, part := range []string{"request", "response"} {
		secs, ok := obj[part]
		if !ok {
			return StageOut{Where: where, Panic: "missing " + part}
		}
		for _, s := range secs {
			switch s.Type {
			case api.TABLE:
				var rows []api.TableData
				if err := json.Unmarshal([]byte(s.Data), &rows); err != nil {
					return StageOut{Where: where, Panic: "table data of " + s.Title + " does not parse: " + err.Error()}
				}
			case api.BODY:
			default:
				return StageOut{Where: where, Panic: "section type " + s.Type}
			}
		}
	}
	out = StageOut{Ok: true, Summary: base.Summary, SummaryQuery: base.SummaryQuery, Method: base.Method,
		MethodQuery: base.MethodQuery, RepBytes: len(rep), EntryBytes: len(eb)}
	return out
}

// ---------------------------------------------------------------------------------------------
// schemas

func schemasMain() {
	w := bufio.NewWriter(os.Stdout)
	defer w.Flush()
	for _, a := range kobs.Supported {
		min, max, _, _ := kty.SpecRange(a.Req)
		for v := min; v <= max; v++ {
			o := kobs.Observe(a.Key, v)
			for _, resp := range []bool{false, true} {
				spec, flexible, err := kobs.SpecSchema(&a, v, resp)
				if err != nil {
					fmt.Fprintln(os.Stderr, err)
					os.Exit(1)
				}
				var impl kty.Ty
				t := o.ReqType
				if resp {
					t = o.RespType
				}
				tn := ""
				if t == nil {
					impl = kty.Ty{K: "unsupported", Note: "no payload observed"}
				} else {
					impl = kty.ImplTy(t)
					tn = t.Name()
				}
				dir := "request"
				if resp {
					dir = "response"
				}
				fmt.Fprintf(w, `{"api":%d,"name":%q,"ver":%d,"dir":%q,"flexible":%v,"implT":%q,"impl":%s,"spec":%s}`+"\n",
					a.Key, a.Name, v, dir, flexible, tn, impl.JSON(), spec.JSON())
			}
		}
	}
}

// implLayoutsMain prints, for every api key the dissector knows and every version 0..15, the
// layouts its own Dissect selects (observed through a header-only exchange): the input of the
// layout-directed witness generator in tools/fam/kafka.py.
func implLayoutsMain() {
	w := bufio.NewWriter(os.Stdout)
	defer w.Flush()
	for _, a := range kobs.Supported {
		for v := int16(0); v <= 15; v++ {
			o := kobs.Observe(a.Key, v)
			one := func(t reflect.Type) string {
				if t == nil {
					return "null"
				}
				return kty.ImplTy(t).JSON()
			}
			fmt.Fprintf(w, `{"api":%d,"name":%q,"ver":%d,"req":%s,"resp":%s}`+"\n", a.Key, a.Name, v, one(o.ReqType), one(o.RespType))
		}
	}
}
