//go:build verif

package main

// Independent encoder side: conversations are built as github.com/segmentio/kafka-go/protocol
// message structs (filled by reflection along their `kafka:"min=,max=,nullable"` tags), encoded by
// protocol.WriteRequest / WriteResponse, and described as a flat list of tokens (one per scalar,
// string, array count) taken from the struct values -- not from the bytes -- so that the report of
// the dissector can be compared position by position.

import (
	"bytes"
	"encoding/binary"
	"encoding/hex"
	"fmt"
	"math/rand"
	"reflect"
	"strings"
	"time"

	"github.com/segmentio/kafka-go/protocol"
	"github.com/segmentio/kafka-go/protocol/findcoordinator"
	"github.com/segmentio/kafka-go/protocol/heartbeat"
	"github.com/segmentio/kafka-go/protocol/offsetfetch"
	"github.com/segmentio/kafka-go/protocol/saslhandshake"

	"verif/harness/kobs"
	"verif/harness/kty"
)

// Tok is one wire token of a message body.
//
//	K: "b" bool, "i" fixed int, "v" zig-zag varint, "u" unsigned varint, "s" string, "y" bytes,
//	   "n" array count, "o" opaque run of bytes (message set), "t" empty tag buffer
//	W: bytes of the scalar or of the length/count prefix; L: total bytes on the wire
//	V: integer value (counts and lengths: the value on the wire, -1 = null)
//	S: content of strings/bytes (hex);  D: derived by the encoder (size, crc, ...), read back from the wire
type Tok struct {
	P string `json:"p"`
	K string `json:"k"`
	W int    `json:"w"`
	L int    `json:"l"`
	V int64  `json:"v"`
	S string `json:"s,omitempty"`
	D bool   `json:"d,omitempty"`
	O int    `json:"o"` // offset from the start of the frame (size field = offset 0)
}

type absRecord struct {
	key, value []byte // nil = null
	headers    [][2][]byte
	tsDelta    int64
}

type genCfg struct {
	rng     *rand.Rand
	minArr  int
	maxArr  int    // arrays have minArr..maxArr elements
	errCode *int16 // every 16-bit field named ...ErrorCode gets this value
	strLens []int  // candidate string lengths
	recLens []int  // candidate key/value/header lengths
	maxRecs int
	nulls   bool
	binary  bool // strings may contain arbitrary bytes
}

type gen struct {
	cfg     genCfg
	version int16
	flex    bool
	apiKey  int16
	toks    []Tok
	err     error
	prev    []string // strings generated for this message so far (some are used again: repeated topic names)
}

const tsBase = int64(1600000000000)

func sizeOfVarInt(i int64) int {
	u := uint64((i << 1) ^ (i >> 63))
	return sizeOfUVarInt(u)
}
func sizeOfUVarInt(u uint64) int {
	n := 1
	for u >= 0x80 {
		u >>= 7
		n++
	}
	return n
}

func (g *gen) randString(n int) string {
	b := make([]byte, n)
	const alpha = "abcdefghijklmnopqrstuvwxyzABCDEFGHIJKLMNOPQRSTUVWXYZ0123456789-._"
	mode := g.cfg.rng.Intn(10)
	for i := range b {
		switch {
		case g.cfg.binary && mode == 0:
			b[i] = byte(g.cfg.rng.Intn(256))
		case g.cfg.binary && mode == 1:
			b[i] = " \"\\\n\t'é"[g.cfg.rng.Intn(7)]
		default:
			b[i] = alpha[g.cfg.rng.Intn(len(alpha))]
		}
	}
	return string(b)
}

func (g *gen) randInt(bits uint) int64 {
	r := g.cfg.rng
	max := int64(1)<<(bits-1) - 1
	switch r.Intn(8) {
	case 0:
		return 0
	case 1:
		return 1
	case 2:
		return -1
	case 3:
		return max
	case 4:
		return -max - 1
	case 5:
		return int64(r.Intn(300)) % (max + 1)
	}
	v := r.Int63()
	if bits < 64 {
		v = v % (max + 1)
	}
	if r.Intn(2) == 0 {
		v = -v
	}
	return v
}

func (g *gen) pick(xs []int) int { return xs[g.cfg.rng.Intn(len(xs))] }

func (g *gen) tok(t Tok) { g.toks = append(g.toks, t) }

// fill gives v (settable) a generated value and appends its tokens.
func (g *gen) fill(v reflect.Value, nullable bool, path string) {
	t := v.Type()
	if t.Name() == "RecordSet" && t.PkgPath() == "github.com/segmentio/kafka-go/protocol" {
		g.fillRecordSet(v, path)
		return
	}
	switch t.Kind() {
	case reflect.Bool:
		b := g.cfg.rng.Intn(2) == 1
		v.SetBool(b)
		x := int64(0)
		if b {
			x = 1
		}
		g.tok(Tok{P: path, K: "b", W: 1, L: 1, V: x})
	case reflect.Int8, reflect.Int16, reflect.Int32, reflect.Int64:
		w := int(t.Size())
		x := g.randInt(uint(8 * w))
		if g.cfg.errCode != nil && w == 2 && strings.HasSuffix(strings.ToLower(path), "errorcode") {
			x = int64(*g.cfg.errCode)
		}
		v.SetInt(x)
		g.tok(Tok{P: path, K: "i", W: w, L: w, V: x})
	case reflect.String:
		n := g.pick(g.cfg.strLens)
		s := g.randString(n)
		if len(g.prev) > 0 && g.cfg.rng.Intn(10) < 3 {
			s = g.prev[g.cfg.rng.Intn(len(g.prev))]
		} else if s != "" {
			g.prev = append(g.prev, s)
		}
		v.SetString(s)
		g.strTok(path, "s", []byte(s), nullable && s == "")
	case reflect.Slice:
		if t.Elem().Kind() == reflect.Uint8 {
			n := g.pick(g.cfg.strLens)
			b := []byte(g.randString(n))
			isNull := nullable && g.cfg.nulls && g.cfg.rng.Intn(4) == 0
			if isNull {
				b = nil
			}
			v.SetBytes(b)
			g.strTok(path, "y", b, isNull)
			return
		}
		n := g.cfg.minArr + g.cfg.rng.Intn(g.cfg.maxArr-g.cfg.minArr+1)
		isNull := nullable && g.cfg.nulls && g.cfg.rng.Intn(4) == 0
		if isNull {
			// a nil slice with a nullable tag is written as -1
			v.Set(reflect.Zero(t))
			if g.flex {
				g.tok(Tok{P: path, K: "n", W: 1, L: 1, V: -1})
			} else {
				g.tok(Tok{P: path, K: "n", W: 4, L: 4, V: -1})
			}
			return
		}
		s := reflect.MakeSlice(t, n, n)
		if g.flex {
			w := sizeOfUVarInt(uint64(n) + 1)
			g.tok(Tok{P: path, K: "n", W: w, L: w, V: int64(n)})
		} else {
			g.tok(Tok{P: path, K: "n", W: 4, L: 4, V: int64(n)})
		}
		for i := 0; i < n; i++ {
			g.fill(s.Index(i), nullable, path+"[]")
		}
		v.Set(s)
	case reflect.Struct:
		fs, err := kty.SpecFields(t, g.version)
		if err != nil {
			g.err = err
			return
		}
		for _, af := range fs {
			p := af.Name
			if path != "" {
				p = path + "." + af.Name
			}
			g.fill(v.Field(af.Index), af.Nullable, p)
		}
		if g.flex {
			g.tok(Tok{P: path + "._tags", K: "t", W: 1, L: 1, V: 0})
		}
	default:
		g.err = fmt.Errorf("generator: unsupported type %s at %s", t, path)
	}
}

func (g *gen) strTok(path, k string, b []byte, isNull bool) {
	// nullable strings: the library writes "" as null
	n := int64(len(b))
	if isNull {
		n = -1
	}
	w := 2
	if k == "y" {
		w = 4
	}
	if g.flex {
		w = sizeOfUVarInt(uint64(n + 1))
	}
	g.tok(Tok{P: path, K: k, W: w, L: w + len(b), V: n, S: hex.EncodeToString(b)})
}

func (g *gen) randBlob(allowNull bool) []byte {
	if allowNull && g.cfg.nulls && g.cfg.rng.Intn(6) == 0 {
		return nil
	}
	n := g.pick(g.cfg.recLens)
	return []byte(g.randString(n))
}

func (g *gen) varBytesTok(path string, b []byte) {
	n := int64(len(b))
	if b == nil {
		n = -1
	}
	w := sizeOfVarInt(n)
	g.tok(Tok{P: path + "Len", K: "v", W: w, L: w, V: n})
	g.tok(Tok{P: path, K: "y", W: 0, L: len(b), V: n, S: hex.EncodeToString(b)})
}

func (g *gen) fillRecordSet(v reflect.Value, path string) {
	rv := kobs.RecordVersion(g.apiKey, g.version)
	n := 1 + g.cfg.rng.Intn(g.cfg.maxRecs)
	recs := make([]absRecord, n)
	ts := int64(0)
	for i := range recs {
		recs[i].key = g.randBlob(true)
		recs[i].value = g.randBlob(true)
		if i > 0 {
			ts += int64(g.pick([]int{0, 1, 5, 63, 64, 100, 8191, 8192, 70000}))
		}
		recs[i].tsDelta = ts
		if rv == 2 {
			nh := g.cfg.rng.Intn(3)
			for j := 0; j < nh; j++ {
				k := g.randBlob(false)
				if k == nil {
					k = []byte{}
				}
				recs[i].headers = append(recs[i].headers, [2][]byte{k, g.randBlob(true)})
			}
		}
	}
	prs := make([]protocol.Record, n)
	for i, r := range recs {
		pr := protocol.Record{Time: time.Unix(0, (tsBase+r.tsDelta)*int64(time.Millisecond))}
		pr.Key = protocol.NewBytes(r.key)
		pr.Value = protocol.NewBytes(r.value)
		for _, h := range r.headers {
			pr.Headers = append(pr.Headers, protocol.Header{Key: string(h[0]), Value: h[1]})
		}
		prs[i] = pr
	}
	rs := protocol.RecordSet{Version: int8(rv), Attributes: 0, Records: protocol.NewRecordReader(prs...)}
	v.Set(reflect.ValueOf(rs))

	if rv != 2 {
		// message set v1: [offset i64][size i32][crc i32][magic i8][attr i8][timestamp i64][key][value] per message
		total := 4
		for _, r := range recs {
			total += 8 + 4 + 4 + 1 + 1 + 8 + 4 + len(r.key) + 4 + len(r.value)
		}
		g.tok(Tok{P: path + ".messageSet", K: "o", W: 0, L: total})
		return
	}
	fi := func(name string, w int, val int64, derived bool) {
		g.tok(Tok{P: path + "." + name, K: "i", W: w, L: w, V: val, D: derived})
	}
	fi("size", 4, 0, true)
	fi("baseOffset", 8, 0, false)
	fi("batchLength", 4, 0, true)
	fi("partitionLeaderEpoch", 4, -1, false)
	fi("magic", 1, 2, false)
	fi("crc", 4, 0, true)
	fi("attributes", 2, 0, false)
	fi("lastOffsetDelta", 4, int64(n-1), false)
	fi("firstTimestamp", 8, tsBase, false)
	fi("maxTimestamp", 8, tsBase+recs[n-1].tsDelta, false)
	fi("producerId", 8, -1, false)
	fi("producerEpoch", 2, -1, false)
	fi("baseSequence", 4, -1, false)
	g.tok(Tok{P: path + ".records", K: "n", W: 4, L: 4, V: int64(n)})
	for i, r := range recs {
		p := path + ".records[]"
		length := 1 + sizeOfVarInt(r.tsDelta) + sizeOfVarInt(int64(i)) + sizeOfVarInt(int64(len(r.headers)))
		vb := func(b []byte) int {
			if b == nil {
				return sizeOfVarInt(-1)
			}
			return sizeOfVarInt(int64(len(b))) + len(b)
		}
		length += vb(r.key) + vb(r.value)
		for _, h := range r.headers {
			length += vb(h[0]) + vb(h[1])
		}
		vt := func(name string, val int64) {
			w := sizeOfVarInt(val)
			g.tok(Tok{P: p + "." + name, K: "v", W: w, L: w, V: val})
		}
		vt("length", int64(length))
		g.tok(Tok{P: p + ".attributes", K: "i", W: 1, L: 1, V: 0})
		vt("timestampDelta", r.tsDelta)
		vt("offsetDelta", int64(i))
		g.varBytesTok(p+".key", r.key)
		g.varBytesTok(p+".value", r.value)
		w := sizeOfVarInt(int64(len(r.headers)))
		g.tok(Tok{P: p + ".headers", K: "n", W: w, L: w, V: int64(len(r.headers))})
		for _, h := range r.headers {
			g.varBytesTok(p+".headers[].key", h[0])
			g.varBytesTok(p+".headers[].value", h[1])
		}
	}
}

// ---------------------------------------------------------------------------------------------

type specMsg struct {
	Key     int16
	Name    string
	Req     reflect.Type
	Resp    reflect.Type
	Support bool
}

var unsupportedAPIs = []specMsg{
	{12, "Heartbeat", reflect.TypeOf(heartbeat.Request{}), reflect.TypeOf(heartbeat.Response{}), false},
	{10, "FindCoordinator", reflect.TypeOf(findcoordinator.Request{}), reflect.TypeOf(findcoordinator.Response{}), false},
	{17, "SaslHandshake", reflect.TypeOf(saslhandshake.Request{}), reflect.TypeOf(saslhandshake.Response{}), false},
	{9, "OffsetFetch", reflect.TypeOf(offsetfetch.Request{}), reflect.TypeOf(offsetfetch.Response{}), false},
}

func apiByKey(k int16) *specMsg {
	if a := kobs.SpecByKey(k); a != nil {
		return &specMsg{a.Key, a.Name, a.Req, a.Resp, true}
	}
	for i := range unsupportedAPIs {
		if unsupportedAPIs[i].Key == k {
			return &unsupportedAPIs[i]
		}
	}
	return nil
}

// Exchange is one request/response pair of a conversation as the encoder saw it.
type Exchange struct {
	Api       int16  `json:"api"`
	Name      string `json:"name"`
	Ver       int16  `json:"ver"`
	Corr      int32  `json:"corr"`
	Client    string `json:"client"` // hex
	Supported bool   `json:"supported"`
	Sentinel  bool   `json:"sentinel"`
	Flexible  bool   `json:"flexible"`
	ReqHex    string `json:"req_hex"`
	RespHex   string `json:"resp_hex"`
	ReqSize   int    `json:"req_size"`  // value of the size field
	RespSize  int    `json:"resp_size"` // value of the size field
	ReqBody   int    `json:"req_body"`  // offset of the body in the request frame
	RespBody  int    `json:"resp_body"`
	Req       []Tok  `json:"req"`
	Resp      []Tok  `json:"resp"`
}

// fixOffsets gives every token its frame offset, checks that the tokens cover the body exactly,
// reads the derived values back from the wire and cross-checks the fixed-width ones.
func fixOffsets(toks []Tok, frame []byte, body int) error {
	off := body
	for i := range toks {
		t := &toks[i]
		t.O = off
		if off+t.L > len(frame) {
			return fmt.Errorf("token %s runs past the frame (%d+%d > %d)", t.P, off, t.L, len(frame))
		}
		if t.K == "i" || (t.K == "n" && t.W == 4) {
			var x int64
			switch t.W {
			case 1:
				x = int64(int8(frame[off]))
			case 2:
				x = int64(int16(binary.BigEndian.Uint16(frame[off:])))
			case 4:
				x = int64(int32(binary.BigEndian.Uint32(frame[off:])))
			case 8:
				x = int64(binary.BigEndian.Uint64(frame[off:]))
			}
			if t.D {
				t.V = x
			} else if x != t.V {
				return fmt.Errorf("token %s: struct value %d but wire has %d at offset %d", t.P, t.V, x, off)
			}
		}
		if (t.K == "s" || t.K == "y") && t.V > 0 {
			got := hex.EncodeToString(frame[off+t.W : off+t.L])
			if got != t.S {
				return fmt.Errorf("token %s: content differs from the wire at offset %d", t.P, off)
			}
		}
		off += t.L
	}
	if off != len(frame) {
		return fmt.Errorf("tokens cover %d bytes, frame has %d", off, len(frame))
	}
	return nil
}

func flexibleAt(t reflect.Type, v int16) bool {
	_, _, flex, _ := kty.SpecRange(t)
	return flex >= 0 && v >= flex
}

// VersionRange of an api (request struct).
func versionRange(a *specMsg) (int16, int16) {
	min, max, _, _ := kty.SpecRange(a.Req)
	return min, max
}

func buildExchange(cfg genCfg, a *specMsg, ver int16, corr int32, clientID string, sentinel bool) (Exchange, error) {
	ex := Exchange{Api: a.Key, Name: a.Name, Ver: ver, Corr: corr, Client: hex.EncodeToString([]byte(clientID)),
		Supported: a.Support, Sentinel: sentinel}
	one := func(t reflect.Type, response bool) ([]byte, []Tok, int, error) {
		g := &gen{cfg: cfg, version: ver, apiKey: a.Key, flex: flexibleAt(t, ver), toks: []Tok{}}
		if g.flex {
			// flexible versions: the message header ends with an (empty) tag buffer
			g.tok(Tok{P: "_headerTags", K: "t", W: 1, L: 1, V: 0})
		}
		pv := reflect.New(t)
		g.fill(pv.Elem(), false, "")
		if g.err != nil {
			return nil, nil, 0, g.err
		}
		msg, ok := pv.Interface().(protocol.Message)
		if !ok {
			return nil, nil, 0, fmt.Errorf("%s is not a protocol.Message", t)
		}
		var buf bytes.Buffer
		var err error
		body := 0
		if response {
			err = protocol.WriteResponse(&buf, ver, corr, msg)
			body = 8
		} else {
			err = protocol.WriteRequest(&buf, ver, corr, clientID, msg)
			// (flexible versions write the client id as a nullable string: "" is null, 2 bytes either way)
			body = 4 + 2 + 2 + 4 + 2 + len(clientID)
		}
		if err != nil {
			return nil, nil, 0, err
		}
		frame := buf.Bytes()
		if err := fixOffsets(g.toks, frame, body); err != nil {
			return nil, nil, 0, fmt.Errorf("%s v%d response=%v: encoder self-check: %v", a.Name, ver, response, err)
		}
		ex.Flexible = g.flex
		return frame, g.toks, body, nil
	}
	rq, rt, rb, err := one(a.Req, false)
	if err != nil {
		return ex, err
	}
	rs, st, sb, err := one(a.Resp, true)
	if err != nil {
		return ex, err
	}
	ex.ReqHex, ex.Req, ex.ReqBody, ex.ReqSize = hex.EncodeToString(rq), rt, rb, len(rq)-4
	ex.RespHex, ex.Resp, ex.RespBody, ex.RespSize = hex.EncodeToString(rs), st, sb, len(rs)-4
	return ex, nil
}
