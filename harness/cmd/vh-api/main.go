//go:build verif

// vh-api: harness commands for the api package (C19 Emit, C20 ReadProgress / AppStats).
package main

import (
	"bufio"
	"encoding/json"
	"fmt"
	"os"
	"reflect"
	"strconv"
	"strings"
	"sync"
	"sync/atomic"
	"time"

	"github.com/kubeshark/base/pkg/api"

	"verif/harness/mock"
	"verif/harness/sched"
)

func main() {
	if len(os.Args) < 2 {
		fmt.Fprintln(os.Stderr, "usage: vh-api progress|stats-sched|stats-stress|emit-sched|emit-stress ...")
		os.Exit(2)
	}
	switch os.Args[1] {
	case "progress":
		progress()
	case "stats-sched":
		statsSched(os.Args[2:])
	case "stats-sched-all":
		statsSchedAll(os.Args[2:])
	case "stats-stress":
		statsStress(os.Args[2:])
	case "emit-sched":
		emitSched(os.Args[2:])
	case "emit-stress":
		emitStress(os.Args[2:])
	case "emit-multi":
		emitMulti(os.Args[2:])
	case "emit-fresh":
		emitFresh(os.Args[2:])
	case "emit-from":
		emitFrom(os.Args[2:])
	case "emit-closed":
		emitClosed(os.Args[2:])
	default:
		os.Exit(2)
	}
}

// progress: stdin lines of ops "F<n>" | "C" | "R"; prints the values returned by Current.
func progress() {
	sc := bufio.NewScanner(os.Stdin)
	sc.Buffer(make([]byte, 1<<20), 1<<26)
	w := bufio.NewWriter(os.Stdout)
	defer w.Flush()
	for sc.Scan() {
		p := &api.ReadProgress{}
		var outs []string
		for _, tok := range strings.Fields(sc.Text()) {
			switch tok[0] {
			case 'F':
				n, _ := strconv.Atoi(tok[1:])
				p.Feed(n)
			case 'C':
				outs = append(outs, strconv.Itoa(p.Current()))
			case 'R':
				p.Reset()
			}
		}
		fmt.Fprintln(w, strings.Join(outs, " "))
	}
}

func atoi(s string) int { n, _ := strconv.Atoi(s); return n }

// explore runs every schedule, or exactly one when VH_PREFIX=w0,w1,... (replay) is set.
func explore(names []string, mk func() (map[string]func(), func() string), maxRuns int,
	visit func(steps []sched.Step, obs string, err error) bool) (int, bool) {
	if pre := os.Getenv("VH_PREFIX"); pre != "" {
		bodies, observe := mk()
		steps, err := sched.Exec(names, bodies, strings.Split(pre, ","), 10000)
		obs := ""
		if err == nil {
			obs = observe()
		}
		visit(steps, obs, err)
		return 1, false
	}
	return sched.Explore(names, mk, 10000, maxRuns, visit)
}

type schedOut struct {
	Steps []sched.Step `json:"steps"`
	Obs   string       `json:"obs"`
	Err   string       `json:"err,omitempty"`
}

// stats-sched <incThreads> <incsPerThread> <dumps>: explores every interleaving of the
// incrementers (api.AppStats.IncMatchedPairs, one call per step) with DumpStats calls under
// the deterministic scheduler; prints one JSON line per schedule.
func statsSched(args []string) {
	nt, per, nd := atoi(args[0]), atoi(args[1]), atoi(args[2])
	maxRuns := 200000
	if len(args) > 3 {
		maxRuns = atoi(args[3])
	}
	var names []string
	for i := 0; i < nt; i++ {
		names = append(names, fmt.Sprintf("inc%d", i))
	}
	names = append(names, "dump")
	w := bufio.NewWriter(os.Stdout)
	defer w.Flush()
	enc := json.NewEncoder(w)
	runs, complete := explore(names, func() (map[string]func(), func() string) {
		st := &api.AppStats{}
		var dumped []uint64
		bodies := map[string]func(){}
		for i := 0; i < nt; i++ {
			bodies[names[i]] = func() {
				for k := 0; k < per; k++ {
					if k > 0 {
						api.VerifYieldPoint("inc.call")
					}
					st.IncMatchedPairs()
				}
			}
		}
		bodies["dump"] = func() {
			for k := 0; k < nd; k++ {
				d := st.DumpStats()
				dumped = append(dumped, d.MatchedPairs)
			}
		}
		return bodies, func() string {
			var parts []string
			for _, d := range dumped {
				parts = append(parts, strconv.FormatUint(d, 10))
			}
			return fmt.Sprintf("dumps=%s residue=%d", strings.Join(parts, ","), st.MatchedPairs)
		}
	}, maxRuns, func(steps []sched.Step, obs string, err error) bool {
		o := schedOut{Steps: steps, Obs: obs}
		if err != nil {
			o.Err = err.Error()
		}
		enc.Encode(o)
		return true
	})
	fmt.Fprintf(w, "{\"runs\":%d,\"complete\":%v}\n", runs, complete)
}

// stats-sched-all <bursts> <dumps>: one goroutine calls EVERY Inc* method of AppStats (and UpdateProcessedBytes) in a
// burst, <bursts> times with a scheduling point between bursts; another calls DumpStats <dumps> times (its reset steps are
// scheduling points).  For every counter that a dump resets, dumps + residue must equal the increments, in every schedule.
func statsSchedAll(args []string) {
	per, nd := atoi(args[0]), atoi(args[1])
	incAll := func(st *api.AppStats) {
		v := reflect.ValueOf(st)
		for i := 0; i < v.NumMethod(); i++ {
			m := v.Type().Method(i)
			if strings.HasPrefix(m.Name, "Inc") && m.Type.NumIn() == 1 {
				v.Method(i).Call(nil)
			}
		}
		st.UpdateProcessedBytes(1)
	}
	var fields []string
	t := reflect.TypeOf(api.AppStats{})
	for i := 0; i < t.NumField(); i++ {
		if t.Field(i).Type.Kind() == reflect.Uint64 {
			fields = append(fields, t.Field(i).Name)
		}
	}
	get := func(st *api.AppStats, f string) uint64 { return reflect.ValueOf(st).Elem().FieldByName(f).Uint() }
	ref := &api.AppStats{}
	for k := 0; k < per; k++ {
		incAll(ref)
	}
	probe := &api.AppStats{}
	incAll(probe)
	probe.DumpStats()
	var counted []string // the fields a dump resets (a gauge such as the live streams is reported, not reset)
	for _, f := range fields {
		if get(probe, f) == 0 && get(ref, f) != 0 {
			counted = append(counted, f)
		}
	}
	names := []string{"inc", "dump"}
	w := bufio.NewWriter(os.Stdout)
	defer w.Flush()
	enc := json.NewEncoder(w)
	runs, complete := explore(names, func() (map[string]func(), func() string) {
		st := &api.AppStats{}
		var dumps []*api.AppStats
		bodies := map[string]func(){}
		bodies["inc"] = func() {
			for k := 0; k < per; k++ {
				if k > 0 {
					api.VerifYieldPoint("inc.call")
				}
				incAll(st)
			}
		}
		bodies["dump"] = func() {
			for k := 0; k < nd; k++ {
				dumps = append(dumps, st.DumpStats())
			}
		}
		return bodies, func() string {
			var bad []string
			for _, f := range counted {
				sum := get(st, f)
				for _, d := range dumps {
					sum += get(d, f)
				}
				if sum != get(ref, f) {
					bad = append(bad, fmt.Sprintf("%s: dumps+residue=%d increments=%d", f, sum, get(ref, f)))
				}
			}
			if len(bad) > 0 {
				return "bad " + strings.Join(bad, "; ")
			}
			return "ok " + strings.Join(counted, ",")
		}
	}, 200000, func(steps []sched.Step, obs string, err error) bool {
		o := schedOut{Steps: steps, Obs: obs}
		if err != nil {
			o.Err = err.Error()
		}
		enc.Encode(o)
		return true
	})
	fmt.Fprintf(w, "{\"runs\":%d,\"complete\":%v}\n", runs, complete)
}

// stats-stress <goroutines> <incsEach> <dumps>: free-running goroutines; prints totals.
func statsStress(args []string) {
	g, per, nd := atoi(args[0]), atoi(args[1]), atoi(args[2])
	st := &api.AppStats{}
	var wg sync.WaitGroup
	for i := 0; i < g; i++ {
		wg.Add(1)
		go func() {
			defer wg.Done()
			for k := 0; k < per; k++ {
				st.IncMatchedPairs()
				st.IncPacketsCount()
				st.UpdateProcessedBytes(3)
			}
		}()
	}
	var dm, dp, db uint64
	done := make(chan struct{})
	go func() {
		for k := 0; k < nd; k++ {
			d := st.DumpStats()
			dm += d.MatchedPairs
			dp += d.PacketsCount
			db += d.ProcessedBytes
		}
		close(done)
	}()
	wg.Wait()
	<-done
	d := st.DumpStats()
	dm += d.MatchedPairs
	dp += d.PacketsCount
	db += d.ProcessedBytes
	fmt.Printf("{\"expected\":%d,\"matched\":%d,\"packets\":%d,\"bytes3\":%d}\n", g*per, dm, dp, db/3)
}

// emit-sched <threads> <emitsEach>: every interleaving of concurrent Emit calls on one
// stream under the deterministic scheduler.
func emitSched(args []string) {
	nt, per := atoi(args[0]), atoi(args[1])
	maxRuns := 200000
	if len(args) > 2 {
		maxRuns = atoi(args[2])
	}
	var names []string
	for i := 0; i < nt; i++ {
		names = append(names, fmt.Sprintf("e%d", i))
	}
	w := bufio.NewWriter(os.Stdout)
	defer w.Flush()
	enc := json.NewEncoder(w)
	runs, complete := explore(names, func() (map[string]func(), func() string) {
		stream := &mock.Stream{PcapId: "s"}
		stats := &api.AppStats{}
		em, drain := mock.NewEmitting(stream, stats, nt*per+1)
		bodies := map[string]func(){}
		for i := 0; i < nt; i++ {
			i := i
			bodies[names[i]] = func() {
				for k := 0; k < per; k++ {
					if k > 0 {
						api.VerifYieldPoint("emit.call")
					}
					em.Emit(&api.OutputChannelItem{Namespace: fmt.Sprintf("%d.%d", i, k)})
				}
			}
		}
		return bodies, func() string {
			items := drain()
			var idx []string
			for _, it := range items {
				idx = append(idx, strconv.FormatInt(it.Index, 10))
			}
			return fmt.Sprintf("n=%d idx=%s matched=%d count=%d", len(items), strings.Join(idx, ","), stats.MatchedPairs, stream.GetIndex())
		}
	}, maxRuns, func(steps []sched.Step, obs string, err error) bool {
		o := schedOut{Steps: steps, Obs: obs}
		if err != nil {
			o.Err = err.Error()
		}
		enc.Encode(o)
		return true
	})
	fmt.Fprintf(w, "{\"runs\":%d,\"complete\":%v}\n", runs, complete)
}

// emit-stress <goroutines> <emitsEach>
func emitStress(args []string) {
	g, per := atoi(args[0]), atoi(args[1])
	stream := &mock.Stream{PcapId: "s"}
	stats := &api.AppStats{}
	ch := make(chan *api.OutputChannelItem, 1024)
	em := &api.Emitting{AppStats: stats, Stream: stream, OutputChannel: ch}
	seen := map[int64]int{}
	n := 0
	done := make(chan struct{})
	go func() {
		for it := range ch {
			seen[it.Index]++
			n++
		}
		close(done)
	}()
	var wg sync.WaitGroup
	for i := 0; i < g; i++ {
		wg.Add(1)
		go func() {
			defer wg.Done()
			for k := 0; k < per; k++ {
				em.Emit(&api.OutputChannelItem{})
			}
		}()
	}
	wg.Wait()
	close(ch)
	<-done
	dup := 0
	for _, c := range seen {
		if c > 1 {
			dup += c - 1
		}
	}
	fmt.Printf("{\"expected\":%d,\"delivered\":%d,\"distinct\":%d,\"duplicates\":%d,\"matched\":%d,\"count\":%d}\n",
		g*per, n, len(seen), dup, stats.MatchedPairs, stream.GetIndex())
}

// emit-fresh <trials> <goroutines>: the very first Emit calls of a fresh Emitting, released together
// through a spin gate (whatever Emit sets up on first use is set up under contention); every trial
// must deliver one item per goroutine with distinct indices 0..g-1.
func emitFresh(args []string) {
	trials, g := atoi(args[0]), atoi(args[1])
	bad, firstBad := 0, ""
	for t := 0; t < trials; t++ {
		stream := &mock.Stream{PcapId: "s"}
		stats := &api.AppStats{}
		ch := make(chan *api.OutputChannelItem, g)
		em := &api.Emitting{AppStats: stats, Stream: stream, OutputChannel: ch}
		var gate int32
		var ready, wg sync.WaitGroup
		for i := 0; i < g; i++ {
			ready.Add(1)
			wg.Add(1)
			go func() {
				defer wg.Done()
				ready.Done()
				for atomic.LoadInt32(&gate) == 0 {
				}
				em.Emit(&api.OutputChannelItem{})
			}()
		}
		ready.Wait()
		atomic.StoreInt32(&gate, 1)
		wg.Wait()
		close(ch)
		seen := map[int64]int{}
		n := 0
		for it := range ch {
			seen[it.Index]++
			n++
		}
		ok := n == g && len(seen) == g && int(stats.MatchedPairs) == g
		for i := 0; i < g && ok; i++ {
			ok = seen[int64(i)] == 1
		}
		if !ok {
			bad++
			if firstBad == "" {
				firstBad = fmt.Sprintf("trial %d: delivered=%d distinct=%d matched=%d", t, n, len(seen), stats.MatchedPairs)
			}
		}
	}
	fmt.Printf("{\"trials\":%d,\"goroutines\":%d,\"bad\":%d,\"first_bad\":%q}\n", trials, g, bad, firstBad)
}

// emit-from <emits> <start> <start> ...: Emit called <emits> times on statistics whose matched-pairs counter already
// stands at <start> (a long-running process: around 2^31, 2^32, 2^53, 2^63 and the 64-bit wrap): the counter must stand at
// start + emits (mod 2^64, the counter's own width) afterwards and the items carry the indices 0..emits-1.
func emitFrom(args []string) {
	n := atoi(args[0])
	type row struct {
		Start string `json:"start"`
		End   string `json:"end"`
		Want  string `json:"want"`
		Idx   bool   `json:"indices_ok"`
	}
	var rows []row
	bad := 0
	for _, a := range args[1:] {
		m0, err := strconv.ParseUint(a, 10, 64)
		if err != nil {
			continue
		}
		stream := &mock.Stream{PcapId: "s"}
		stats := &api.AppStats{MatchedPairs: m0}
		ch := make(chan *api.OutputChannelItem, n+1)
		em := &api.Emitting{AppStats: stats, Stream: stream, OutputChannel: ch}
		for k := 0; k < n; k++ {
			em.Emit(&api.OutputChannelItem{})
		}
		close(ch)
		idxOK, k := true, int64(0)
		for it := range ch {
			if it.Index != k {
				idxOK = false
			}
			k++
		}
		want := m0 + uint64(n)
		r := row{a, strconv.FormatUint(stats.MatchedPairs, 10), strconv.FormatUint(want, 10), idxOK && k == int64(n)}
		if stats.MatchedPairs != want || !r.Idx {
			bad++
		}
		rows = append(rows, r)
	}
	b, _ := json.Marshal(map[string]interface{}{"bad": bad, "rows": rows})
	fmt.Println(string(b))
}

// emit-closed <trials> <goroutines> <emitsEach> <capacity>: the stream reports itself closed after the first item while
// its halves still emit, the output channel is small and its consumer starts late: every emitted item must still arrive,
// with the indices 0..N-1.
func emitClosed(args []string) {
	trials, g, per, capacity := atoi(args[0]), atoi(args[1]), atoi(args[2]), atoi(args[3])
	bad, firstBad := 0, ""
	for t := 0; t < trials; t++ {
		stream := &mock.Stream{PcapId: "s"}
		stats := &api.AppStats{}
		ch := make(chan *api.OutputChannelItem, capacity)
		em := &api.Emitting{AppStats: stats, Stream: stream, OutputChannel: ch}
		var wg sync.WaitGroup
		for i := 0; i < g; i++ {
			wg.Add(1)
			go func() {
				defer wg.Done()
				for k := 0; k < per; k++ {
					em.Emit(&api.OutputChannelItem{})
					atomic.StoreInt32(&stream.Closed, 1)
				}
			}()
		}
		seen := map[int64]int{}
		n := 0
		done := make(chan struct{})
		go func() {
			time.Sleep(time.Duration(t%3) * time.Millisecond) // a consumer that is late
			for it := range ch {
				seen[it.Index]++
				n++
			}
			close(done)
		}()
		wg.Wait()
		close(ch)
		<-done
		N := g * per
		ok := n == N && len(seen) == N && int(stats.MatchedPairs) == N
		if !ok {
			bad++
			if firstBad == "" {
				firstBad = fmt.Sprintf("trial %d: emitted=%d delivered=%d distinct=%d matched=%d", t, N, n, len(seen), stats.MatchedPairs)
			}
		}
	}
	fmt.Printf("{\"trials\":%d,\"bad\":%d,\"first_bad\":%q}\n", trials, bad, firstBad)
}

// emit-multi <streams> <goroutinesPerStream> <emitsEach> <dumps>: several streams, each with its
// own Emitting, share one AppStats; a concurrent goroutine dumps the statistics.  Exactness:
// per stream N distinct indices 0..N-1; matched pairs in dumps + residue = total emits.
func emitMulti(args []string) {
	ns, g, per, nd := atoi(args[0]), atoi(args[1]), atoi(args[2]), atoi(args[3])
	stats := &api.AppStats{}
	type sres struct{ delivered, distinct, count int }
	results := make([]sres, ns)
	var wg, cons sync.WaitGroup
	for s := 0; s < ns; s++ {
		s := s
		stream := &mock.Stream{PcapId: fmt.Sprintf("s%d", s)}
		ch := make(chan *api.OutputChannelItem, 1024)
		em := &api.Emitting{AppStats: stats, Stream: stream, OutputChannel: ch}
		cons.Add(1)
		go func() {
			defer cons.Done()
			seen := map[int64]bool{}
			n := 0
			for it := range ch {
				seen[it.Index] = true
				n++
			}
			results[s] = sres{n, len(seen), int(stream.GetIndex())}
		}()
		var swg sync.WaitGroup
		for i := 0; i < g; i++ {
			wg.Add(1)
			swg.Add(1)
			go func() {
				defer wg.Done()
				defer swg.Done()
				for k := 0; k < per; k++ {
					em.Emit(&api.OutputChannelItem{})
				}
			}()
		}
		go func() { swg.Wait(); close(ch) }()
	}
	var dumped uint64
	done := make(chan struct{})
	go func() {
		for k := 0; k < nd; k++ {
			dumped += stats.DumpStats().MatchedPairs
		}
		close(done)
	}()
	wg.Wait()
	cons.Wait()
	<-done
	dumped += stats.DumpStats().MatchedPairs
	okStreams := 0
	for _, r := range results {
		if r.delivered == g*per && r.distinct == g*per && r.count == g*per {
			okStreams++
		}
	}
	fmt.Printf("{\"expected\":%d,\"matched\":%d,\"streams\":%d,\"streams_exact\":%d}\n", ns*g*per, dumped, ns, okStreams)
}
