//go:build verif

// vh-redis: drives the real Redis dissector (pkg/extensions/redis) for the RESP model family
// (C07, and the Redis share of C08 / C01 / C02).
//
//	vh-redis run         cases on stdin (one JSON object per line), one JSON result per line
//	vh-redis cost        same cases, each run in a child process under `ulimit -v`, with read count,
//	                     TotalAlloc delta, cpu and wall time per case
//	vh-redis cost-child  (internal) the child of `cost`
//	vh-redis tables      the command / keyword / type tables of the compiled package as JSON
//
// A case is {"c":[hex chunk,...],"ct":tail,"s":[hex chunk,...],"st":tail,"ord":order} where tail is
// 0 (EOF) | 1 (one read error, then EOF) | 2 (read error forever) and order is "cs" (client half to
// completion, then server half; the order the test-suite uses), "sc", or "m:" followed by a string
// over {c,s}: both halves run as goroutines and a gate lets exactly one of them perform its next
// read per letter (deterministic interleaving at read granularity); what is left runs client first.
//
// The result carries only projected observables: outcome class per half, the property-relevant
// fields of each emitted item (hex of the Go strings before any JSON rendering) and the number of
// half pairs left in the matcher.
package main

import (
	"bufio"
	"bytes"
	"encoding/hex"
	"encoding/json"
	"fmt"
	"os"
	"os/exec"
	"runtime"
	"strconv"
	"sync"
	"syscall"
	"time"

	"github.com/kubeshark/base/pkg/api"
	"github.com/kubeshark/base/pkg/extensions/redis"
	stg "verif/harness/stage"

	"verif/harness/mock"
)

type Case struct {
	C   []string `json:"c"`
	CT  int      `json:"ct"`
	S   []string `json:"s"`
	ST  int      `json:"st"`
	Ord string   `json:"ord"`
}

type Result struct {
	C     string       `json:"c"` // eof | error | panic | none
	S     string       `json:"s"`
	Items [][10]string `json:"items"`
	Res   int          `json:"res"`
	Panic string       `json:"panic,omitempty"`
	// cost mode
	Reads  int64   `json:"reads,omitempty"`
	Alloc  uint64  `json:"alloc,omitempty"`
	CPU    float64 `json:"cpu,omitempty"`
	Wall   float64 `json:"wall,omitempty"`
	N      int     `json:"n,omitempty"`
	Killed string  `json:"killed,omitempty"`
	// stage mode: every emitted item through the later stages (C11) with its own queries and all macros (C16)
	Stages []stg.Result `json:"stages,omitempty"`
}

var stageMode bool

func main() {
	if len(os.Args) < 2 {
		fmt.Fprintln(os.Stderr, "usage: vh-redis run|cost|cost-child|tables")
		os.Exit(2)
	}
	switch os.Args[1] {
	case "run":
		runAll(false)
	case "stage":
		stageMode = true
		runAll(false)
	case "cost-child":
		runAll(true)
	case "cost":
		costParent()
	case "tables":
		b, _ := json.Marshal(map[string][]string{
			"commands": redis.VerifCommands(), "keywords": redis.VerifKeywords(), "types": redis.VerifTypes()})
		fmt.Println(string(b))
	default:
		os.Exit(2)
	}
}

func unhex(xs []string) ([][]byte, int) {
	out := make([][]byte, 0, len(xs))
	n := 0
	for _, x := range xs {
		b, err := hex.DecodeString(x)
		if err != nil {
			fmt.Fprintln(os.Stderr, "bad hex chunk")
			os.Exit(2)
		}
		out = append(out, b)
		n += len(b)
	}
	return out, n
}

// gated wraps a reader so that each Read waits for a grant (merge orders).
type gated struct {
	*mock.Reader
	want  chan struct{}
	grant chan struct{}
	on    bool
}

func (g *gated) Read(p []byte) (int, error) {
	if g.on {
		g.want <- struct{}{}
		<-g.grant
	}
	return g.Reader.Read(p)
}

type half struct {
	rd      *gated
	outcome string
	panicV  string
	done    chan struct{}
}

func classify(err error) string {
	if err == nil {
		return "nil"
	}
	// the dissector wraps every reader error into a ConnectError carrying only the text
	if err.Error() == "EOF" {
		return "eof"
	}
	return "error"
}

func (h *half) run() {
	defer close(h.done)
	defer func() {
		if r := recover(); r != nil {
			h.outcome = "panic"
			h.panicV = fmt.Sprint(r)
		}
	}()
	err := redis.Dissector.Dissect(bufio.NewReader(h.rd), h.rd)
	h.outcome = classify(err)
}

func pkt(m api.GenericMessage) [5]string {
	var out [5]string
	pl, ok := m.Payload.(redis.RedisPayload)
	if !ok {
		return [5]string{"?payload"}
	}
	w, ok := pl.Data.(*redis.RedisWrapper)
	if !ok {
		return [5]string{"?wrapper"}
	}
	p, ok := w.Details.(*redis.RedisPacket)
	if !ok {
		return [5]string{"?details"}
	}
	out[0] = string(p.Type)
	out[1] = hex.EncodeToString([]byte(p.Command))
	out[2] = hex.EncodeToString([]byte(p.Key))
	out[3] = hex.EncodeToString([]byte(p.Value))
	out[4] = hex.EncodeToString([]byte(p.Keyword))
	if w.Method != string(p.Command) {
		out[0] += "?method"
	}
	return out
}

func runCase(c *Case) (res Result, reads int64) {
	cc, _ := unhex(c.C)
	sc, _ := unhex(c.S)
	matcher := redis.Dissector.NewResponseRequestMatcher()
	stream := &mock.Stream{PcapId: "p"}
	coll := &mock.Collector{}
	cp := &api.CounterPair{}
	mk := func(chunks [][]byte, tail int, isClient bool) *half {
		id := &api.TcpID{SrcIP: "10.0.0.1", DstIP: "10.0.0.2", SrcPort: "40000", DstPort: "6379"}
		if !isClient {
			id = &api.TcpID{SrcIP: "10.0.0.2", DstIP: "10.0.0.1", SrcPort: "6379", DstPort: "40000"}
		}
		r := &mock.Reader{Chunks: chunks, TailKind: mock.Tail(tail), Matcher: matcher, IsClient: isClient,
			Progress: &api.ReadProgress{}, Parent: stream, TcpID: id, CounterPair: cp, Emitter: coll}
		return &half{rd: &gated{Reader: r, want: make(chan struct{}), grant: make(chan struct{})}, done: make(chan struct{})}
	}
	hc := mk(cc, c.CT, true)
	hs := mk(sc, c.ST, false)
	seq := func(h *half) {
		go h.run()
		<-h.done
	}
	switch {
	case c.Ord == "" || c.Ord == "cs":
		seq(hc)
		seq(hs)
	case c.Ord == "sc":
		seq(hs)
		seq(hc)
	case c.Ord == "c":
		seq(hc)
		hs.outcome = "none"
	case c.Ord == "s":
		seq(hs)
		hc.outcome = "none"
	default: // "m:ccsc..."
		hc.rd.on, hs.rd.on = true, true
		go hc.run()
		go hs.run()
		// parked[h] = the half is waiting at a read
		wait := func(h *half) bool { // true if parked at a read, false if finished
			select {
			case <-h.rd.want:
				return true
			case <-h.done:
				return false
			}
		}
		pc, ps := wait(hc), wait(hs)
		step := func(h *half, parked *bool) {
			if *parked {
				h.rd.grant <- struct{}{}
				*parked = wait(h)
			}
		}
		for _, ch := range c.Ord[2:] {
			if ch == 'c' {
				step(hc, &pc)
			} else {
				step(hs, &ps)
			}
		}
		for pc {
			step(hc, &pc)
		}
		for ps {
			step(hs, &ps)
		}
	}
	res.C, res.S = hc.outcome, hs.outcome
	if hc.panicV != "" {
		res.Panic = "client: " + hc.panicV
	}
	if hs.panicV != "" {
		res.Panic += "server: " + hs.panicV
	}
	res.Items = make([][10]string, 0, len(coll.Items))
	for _, it := range coll.Items {
		q, r := pkt(it.Pair.Request), pkt(it.Pair.Response)
		var row [10]string
		copy(row[0:5], q[:])
		copy(row[5:10], r[:])
		res.Items = append(res.Items, row)
	}
	if stageMode {
		for _, it := range coll.Items {
			r := stg.Run(&api.Extension{Dissector: redis.Dissector}, it, false)
			r.Micros = 0
			res.Stages = append(res.Stages, r)
		}
	}
	matcher.GetMap().Range(func(k, v interface{}) bool { res.Res++; return true })
	reads = hc.rd.Reads + hs.rd.Reads
	return
}

func cpuSeconds() float64 {
	var ru syscall.Rusage
	syscall.Getrusage(syscall.RUSAGE_SELF, &ru)
	tv := func(t syscall.Timeval) float64 { return float64(t.Sec) + float64(t.Usec)/1e6 }
	return tv(ru.Utime) + tv(ru.Stime)
}

const (
	watchdogAlloc = uint64(3) << 30 // a case that allocated this much is stopped (budget is 64n + 96 MiB)
	watchdogWall  = 20 * time.Second
)

func runAll(cost bool) {
	sc := bufio.NewScanner(os.Stdin)
	sc.Buffer(make([]byte, 1<<20), 1<<28)
	w := bufio.NewWriter(os.Stdout)
	defer w.Flush()
	var mu sync.Mutex
	for sc.Scan() {
		line := sc.Bytes()
		if len(line) == 0 {
			continue
		}
		var c Case
		if err := json.Unmarshal(line, &c); err != nil {
			fmt.Fprintln(os.Stderr, "bad case:", err)
			os.Exit(2)
		}
		if !cost {
			res, _ := runCase(&c)
			b, _ := json.Marshal(res)
			w.Write(b)
			w.WriteByte('\n')
			continue
		}
		_, n1 := unhex(c.C)
		_, n2 := unhex(c.S)
		runtime.GC()
		var m0, m1 runtime.MemStats
		runtime.ReadMemStats(&m0)
		t0, c0 := time.Now(), cpuSeconds()
		stop := make(chan struct{})
		go func() { // watchdog: a blow-up is observed and reported, not suffered
			tk := time.NewTicker(20 * time.Millisecond)
			defer tk.Stop()
			for {
				select {
				case <-stop:
					return
				case <-tk.C:
					var m runtime.MemStats
					runtime.ReadMemStats(&m)
					why := ""
					if m.TotalAlloc-m0.TotalAlloc > watchdogAlloc {
						why = "alloc"
					} else if time.Since(t0) > watchdogWall {
						why = "time"
					}
					if why != "" {
						mu.Lock()
						b, _ := json.Marshal(Result{C: "killed", S: "killed", Killed: why, N: n1 + n2,
							Alloc: m.TotalAlloc - m0.TotalAlloc, CPU: cpuSeconds() - c0, Wall: time.Since(t0).Seconds()})
						w.Write(b)
						w.WriteByte('\n')
						w.Flush()
						os.Exit(3)
					}
				}
			}
		}()
		res, reads := runCase(&c)
		close(stop)
		res.Wall, res.CPU = time.Since(t0).Seconds(), cpuSeconds()-c0
		runtime.ReadMemStats(&m1)
		res.Alloc, res.Reads, res.N = m1.TotalAlloc-m0.TotalAlloc, reads, n1+n2
		res.Items = res.Items[:0] // cost mode reports the count only
		mu.Lock()
		b, _ := json.Marshal(res)
		w.Write(b)
		w.WriteByte('\n')
		w.Flush()
		mu.Unlock()
	}
}

// costParent feeds the cases to children running under an address-space limit; a child that is
// killed (or stops itself through the watchdog) costs one case, the rest goes to a fresh child.
func costParent() {
	limitKB := 6 << 20 // 6 GiB of address space
	if len(os.Args) > 2 {
		if v, err := strconv.Atoi(os.Args[2]); err == nil {
			limitKB = v
		}
	}
	sc := bufio.NewScanner(os.Stdin)
	sc.Buffer(make([]byte, 1<<20), 1<<28)
	var cases [][]byte
	for sc.Scan() {
		if len(sc.Bytes()) > 0 {
			cases = append(cases, append([]byte(nil), sc.Bytes()...))
		}
	}
	out := bufio.NewWriter(os.Stdout)
	defer out.Flush()
	self, _ := os.Executable()
	i := 0
	for i < len(cases) {
		cmd := exec.Command("sh", "-c", fmt.Sprintf("ulimit -v %d; exec \"$0\" cost-child", limitKB), self)
		cmd.Env = append(os.Environ(), "GOMAXPROCS=2")
		stdin, _ := cmd.StdinPipe()
		stdout, _ := cmd.StdoutPipe()
		cmd.Stderr = nil
		if err := cmd.Start(); err != nil {
			fmt.Fprintln(os.Stderr, "cannot start child:", err)
			os.Exit(2)
		}
		go func(from int) {
			for _, c := range cases[from:] {
				if _, err := stdin.Write(append(c, '\n')); err != nil {
					break
				}
			}
			stdin.Close()
		}(i)
		rd := bufio.NewScanner(stdout)
		rd.Buffer(make([]byte, 1<<20), 1<<26)
		got := 0
		lastKilled := false
		for rd.Scan() {
			out.Write(rd.Bytes())
			out.WriteByte('\n')
			lastKilled = bytes.Contains(rd.Bytes(), []byte(`"killed":"`))
			got++
		}
		err := cmd.Wait()
		i += got
		if err != nil && !lastKilled && i < len(cases) {
			// the child died on case i without a line of its own (fatal error, OOM kill, ulimit)
			b, _ := json.Marshal(Result{C: "killed", S: "killed", Killed: "child: " + err.Error()})
			out.Write(b)
			out.WriteByte('\n')
			i++
		}
		if err == nil && got == 0 {
			break
		}
	}
}
