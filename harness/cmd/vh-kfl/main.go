//go:build verif

// vh-kfl: harness commands for the KFL evaluator (C12, C13, C14, C18).
//
// Every mode reads one case per line on stdin, fields separated by tabs, every field hex encoded
// (queries and records are arbitrary byte strings), and prints one JSON object per line, flushed
// after every case so that a fatal crash (stack overflow, runtime throw) is attributed to the
// first case without an answer.
//
//	ast      <query>                       parse + precompute with the real code, dump the tree
//	eval     <query> <record>              PrepareQuery + Eval under recover(); with -k also the
//	                                       tree, the parsed record and the oracle tables as Coq terms
//	entry    <query> <record>              every entry point under recover()
//	reuse    <query> <record>...           one prepared query on sequences of records / goroutines
//	num      f<bits-hex> | i<int64> | p<hex string>   FormatFloat('g',6), float64(int64), ParseFloat
//	surface  <query>                       ExpandMacros + Parse only: the tree before Precompute, regexp.Compile of its regex literals
//	paths    <string>                      jp.ParseString: the expression and its String()
package main

import (
	"bufio"
	"encoding/base64"
	"encoding/hex"
	"encoding/json"
	"fmt"
	"math"
	"os"
	"reflect"
	"regexp"
	"sort"
	"strconv"
	"strings"
	"sync"
	"time"

	"github.com/clbanning/mxj/v2"
	"github.com/kubeshark/base/pkg/languages/kfl"
	"github.com/ohler55/ojg/jp"
	oj "github.com/ohler55/ojg/oj"
	"github.com/rs/zerolog"
)

var caseTimeout = 20 * time.Second

func main() {
	zerolog.SetGlobalLevel(zerolog.Disabled)
	if len(os.Args) < 2 {
		fmt.Fprintln(os.Stderr, "usage: vh-kfl ast|eval|entry|reuse|num")
		os.Exit(2)
	}
	args := os.Args[2:]
	switch os.Args[1] {
	case "ast":
		loop(func(f []string) interface{} { return doAst(f[0]) })
	case "eval":
		withK := len(args) > 0 && args[0] == "-k"
		loop(func(f []string) interface{} { return doEval(f[0], field(f, 1), withK) })
	case "entry":
		loop(func(f []string) interface{} { return doEntry(f[0], field(f, 1)) })
	case "reuse":
		loop(func(f []string) interface{} { return doReuse(f[0], f[1:]) })
	case "reusecold":
		loop(func(f []string) interface{} { return doReuseCold(f[0], f[1:]) })
	case "num":
		loop(func(f []string) interface{} { return doNum(f[0]) })
	case "surface":
		loop(func(f []string) interface{} { return doSurface(f[0]) })
	case "paths":
		loop(func(f []string) interface{} { return doPath(f[0]) })
	default:
		os.Exit(2)
	}
}

func field(f []string, i int) string {
	if i < len(f) {
		return f[i]
	}
	return ""
}

// loop: decode the fields of each line, run the case with a watchdog, print the answer.
func loop(run func(fields []string) interface{}) {
	sc := bufio.NewScanner(os.Stdin)
	sc.Buffer(make([]byte, 1<<20), 1<<28)
	w := bufio.NewWriterSize(os.Stdout, 1<<20)
	enc := json.NewEncoder(w)
	enc.SetEscapeHTML(false)
	i := 0
	for sc.Scan() {
		raw := strings.Split(sc.Text(), "\t")
		fields := make([]string, len(raw))
		for k, h := range raw {
			b, err := hex.DecodeString(h)
			if err != nil {
				fmt.Fprintln(os.Stderr, "bad hex on line", i)
				os.Exit(2)
			}
			fields[k] = string(b)
		}
		done := make(chan interface{}, 1)
		go func() { done <- run(fields) }()
		select {
		case r := <-done:
			enc.Encode(r)
			w.Flush()
		case <-time.After(caseTimeout):
			enc.Encode(map[string]interface{}{"outcome": "timeout"})
			w.Flush()
			os.Exit(3)
		}
		i++
	}
}

// ------------------------------------------------------------------------------------------- ast
type astOut struct {
	Outcome     string   `json:"outcome"` // ok | error | panic
	Stage       string   `json:"stage,omitempty"`
	Msg         string   `json:"msg,omitempty"`
	Limit       string   `json:"limit"`
	Coq         string   `json:"coq,omitempty"`
	Shape       []string `json:"shape,omitempty"`
	Unsupported []string `json:"unsupported,omitempty"`
	Helpers     []string `json:"helpers,omitempty"`
	Redact      bool     `json:"redact,omitempty"`
}

func doAst(query string) (out astOut) {
	defer func() {
		if r := recover(); r != nil {
			out.Outcome, out.Msg = "panic", fmt.Sprint(r)
		}
	}()
	out.Stage = "prepare"
	expr, prop, err := kfl.PrepareQuery(query)
	out.Limit = strconv.FormatUint(prop.Limit, 10)
	if err != nil {
		out.Outcome, out.Msg = "error", err.Error()
		return
	}
	d := &dumper{}
	out.Coq = d.expr(expr)
	out.Shape, out.Unsupported, out.Helpers, out.Redact = d.shapeErr, d.unsupported, d.helpers, d.hasRedact
	out.Outcome = "ok"
	return
}

// ------------------------------------------------------------------------------------------ eval
type evalOut struct {
	Outcome     string   `json:"outcome"` // ok | error | panic
	Stage       string   `json:"stage,omitempty"`
	Msg         string   `json:"msg,omitempty"`
	Truth       bool     `json:"truth"`
	Limit       string   `json:"limit"`
	RecOut      string   `json:"rec_out"` // hex of newJson
	Ast         string   `json:"ast,omitempty"`
	Rec         string   `json:"rec,omitempty"`
	RecOK       bool     `json:"rec_ok,omitempty"`
	Tables      string   `json:"tables,omitempty"`
	Shape       []string `json:"shape,omitempty"`
	Unsupported []string `json:"unsupported,omitempty"`
	Redact      bool     `json:"redact,omitempty"`
	SnapEqual   bool     `json:"snap_equal"`
}

func doEval(query, record string, withK bool) (out evalOut) {
	defer func() {
		if r := recover(); r != nil {
			out.Outcome, out.Msg = "panic", fmt.Sprint(r)
		}
	}()
	out.Stage = "prepare"
	expr, prop, err := kfl.PrepareQuery(query)
	out.Limit = strconv.FormatUint(prop.Limit, 10)
	if err != nil {
		out.Outcome, out.Msg = "error", err.Error()
		return
	}
	var d *dumper
	var before string
	if withK {
		d = &dumper{}
		out.Ast = d.expr(expr)
		out.Shape, out.Unsupported, out.Redact = d.shapeErr, d.unsupported, d.hasRedact
		before = snapshot(expr)
		func() {
			defer func() {
				if r := recover(); r != nil {
					out.Tables = ""
					out.Msg = "tables: " + fmt.Sprint(r)
				}
			}()
			obj, perr := oj.ParseString(record)
			if perr == nil {
				ok := true
				out.Rec = coqJSON(obj, &ok)
				out.RecOK = ok
				out.Tables = buildTables(d, obj)
			}
		}()
	}
	out.Stage = "eval"
	truth, newJSON, err := kfl.Eval(expr, record)
	if err != nil {
		out.Outcome, out.Msg = "error", err.Error()
		return
	}
	out.Outcome, out.Truth, out.RecOut = "ok", truth, hex.EncodeToString([]byte(newJSON))
	if withK {
		out.SnapEqual = before == snapshot(expr)
	}
	return
}

// ---------------------------------------------------------------------------------------- tables
type xmlRes struct {
	kind string // fail | str | map | other
	text *string
}

func xmlFirst(doc, path string) (r xmlRes) {
	defer func() {
		if p := recover(); p != nil {
			r = xmlRes{kind: "fail"}
		}
	}()
	mv, err := mxj.NewMapXml([]byte(doc))
	if err != nil {
		return xmlRes{kind: "fail"}
	}
	result, err := mv.ValuesForPath(path)
	if err != nil || len(result) < 1 {
		return xmlRes{kind: "fail"}
	}
	switch v := result[0].(type) {
	case string:
		return xmlRes{kind: "str", text: &v}
	case map[string]interface{}:
		if s, ok := v["#text"].(string); ok {
			return xmlRes{kind: "map", text: &s}
		}
		return xmlRes{kind: "map"}
	}
	return xmlRes{kind: "other"}
}

func walkStrings(v interface{}, add func(string)) {
	add(stringOperand(v))
	switch v := v.(type) {
	case int64:
		add(stringOperand(-v))
	case float64:
		add(stringOperand(-v))
	case []interface{}:
		for _, x := range v {
			walkStrings(x, add)
		}
	case map[string]interface{}:
		for _, x := range v {
			walkStrings(x, add)
		}
	}
}

const maxTableStrings = 400

// buildTables: the answers of the libraries for every string the evaluation of this query on this
// record can hand to them (closure described in tools/fam/kfl.py), as a Coq term of type `tables`.
func buildTables(d *dumper, rec interface{}) string {
	set := map[string]bool{}
	var order []string
	add := func(s string) {
		if !set[s] && len(order) < maxTableStrings {
			set[s] = true
			order = append(order, s)
		}
	}
	for _, s := range []string{"", "true", "false", "null"} {
		add(s)
	}
	for _, s := range d.literals {
		add(s)
	}
	walkStrings(rec, add)
	s0 := append([]string(nil), order...)

	var b64s, jsons, xmls, times, res, floats []string
	seenDoc := map[string]bool{}
	for _, s := range s0 {
		t := s
		if dec, err := base64.StdEncoding.DecodeString(s); err == nil {
			t = string(dec)
			b64s = append(b64s, "("+coqBytes(s)+", Some "+coqBytes(t)+")")
		} else {
			b64s = append(b64s, "("+coqBytes(s)+", None)")
		}
		if seenDoc[t] {
			continue
		}
		seenDoc[t] = true
		if doc, err := oj.ParseString(t); err == nil {
			ok := true
			term := coqJSON(doc, &ok)
			if ok {
				jsons = append(jsons, "("+coqBytes(t)+", Some "+term+")")
				walkStrings(doc, add)
			}
		} else {
			jsons = append(jsons, "("+coqBytes(t)+", None)")
		}
		for _, p := range uniq(d.xmlPaths) {
			r := xmlFirst(t, p)
			var term string
			switch r.kind {
			case "str":
				term = "XStr " + coqBytes(*r.text)
				add(*r.text)
			case "map":
				if r.text != nil {
					term = "XMap (Some " + coqBytes(*r.text) + ")"
					add(*r.text)
				} else {
					term = "XMap None"
				}
			case "other":
				term = "XOtherType"
			default:
				term = "XFail"
			}
			xmls = append(xmls, "("+coqBytes(t)+", "+coqBytes(p)+", "+term+")")
		}
	}
	for _, s := range append([]string(nil), order...) {
		if t, err := time.Parse("1/2/2006, 3:04:05.000 PM", s); err == nil {
			ns := t.UnixNano()
			times = append(times, "("+coqBytes(s)+", Some "+coqZ(ns)+")")
			add(strconv.FormatInt(ns/int64(time.Millisecond), 10))
		} else {
			times = append(times, "("+coqBytes(s)+", None)")
		}
	}
	for _, src := range uniq(d.regexps) {
		re, err := regexp.Compile(src)
		if err != nil {
			continue
		}
		for _, s := range order {
			res = append(res, "("+coqBytes(src)+", "+coqBytes(s)+", "+coqBool(re.MatchString(s))+")")
		}
	}
	for _, s := range order {
		if f, err := strconv.ParseFloat(s, 64); err == nil {
			floats = append(floats, "("+coqBytes(s)+", Some "+coqFloat(f)+")")
		} else {
			floats = append(floats, "("+coqBytes(s)+", None)")
		}
	}
	l := func(xs []string) string { return "[" + strings.Join(xs, "; ") + "]" }
	return "(Tables " + l(floats) + " " + l(res) + " " + l(times) + " " + l(b64s) + " " + l(jsons) + " " + l(xmls) + ")"
}

func uniq(xs []string) []string {
	m := map[string]bool{}
	var out []string
	for _, x := range xs {
		if !m[x] {
			m[x] = true
			out = append(out, x)
		}
	}
	sort.Strings(out)
	return out
}

// ----------------------------------------------------------------------------------------- entry
// Every public entry point on the same (query, record) under its own recover().
func guard(f func() error) (res string) {
	defer func() {
		if r := recover(); r != nil {
			res = "panic: " + fmt.Sprint(r)
		}
	}()
	if err := f(); err != nil {
		return "error"
	}
	return "ok"
}

func doEntry(query, record string) map[string]string {
	out := map[string]string{}
	out["Validate"] = guard(func() error { return kfl.Validate(query) })
	out["ExpandMacros"] = guard(func() error { _, err := kfl.ExpandMacros(query); return err })
	var parsed *kfl.Expression
	out["Parse"] = guard(func() error {
		var err error
		parsed, err = kfl.Parse(query)
		if err != nil {
			parsed = nil
		}
		return err
	})
	if parsed != nil {
		out["Precompute"] = guard(func() error { _, err := kfl.Precompute(parsed); return err })
		// Eval on whatever Precompute left behind, error or not (a caller may ignore the error)
		out["EvalAfterPrecompute"] = guard(func() error { _, _, err := kfl.Eval(parsed, record); return err })
		// and on a tree that was only parsed
		out["EvalParsedOnly"] = guard(func() error {
			e, err := kfl.Parse(query)
			if err != nil {
				return err
			}
			_, _, err = kfl.Eval(e, record)
			return err
		})
	}
	var prepared *kfl.Expression
	out["PrepareQuery"] = guard(func() error {
		var err error
		prepared, _, err = kfl.PrepareQuery(query)
		if err != nil {
			prepared = nil
		}
		return err
	})
	if prepared != nil {
		out["Eval"] = guard(func() error { _, _, err := kfl.Eval(prepared, record); return err })
	}
	out["Apply"] = guard(func() error { _, _, err := kfl.Apply([]byte(record), query); return err })
	return out
}

// ----------------------------------------------------------------------------------------- reuse
type evalObs struct {
	Class string `json:"c"` // ok | error | panic
	Truth bool   `json:"t"`
	Rec   string `json:"r"` // hex of newJson
}

func evalObserved(expr *kfl.Expression, record string) (o evalObs) {
	defer func() {
		if r := recover(); r != nil {
			o = evalObs{Class: "panic"}
		}
	}()
	truth, nj, err := kfl.Eval(expr, record)
	if err != nil {
		return evalObs{Class: "error"}
	}
	return evalObs{Class: "ok", Truth: truth, Rec: hex.EncodeToString([]byte(nj))}
}

// sameObs: same outcome class and truth, and the same returned record as a JSON value (the
// serialiser writes object members in map order, so the texts may differ)
func sameObs(a, b evalObs) bool {
	if a.Class != b.Class || a.Truth != b.Truth {
		return false
	}
	if a.Rec == b.Rec {
		return true
	}
	ra, _ := hex.DecodeString(a.Rec)
	rb, _ := hex.DecodeString(b.Rec)
	var va, vb interface{}
	if json.Unmarshal(ra, &va) != nil || json.Unmarshal(rb, &vb) != nil {
		return false
	}
	return reflect.DeepEqual(unnest(va), unnest(vb))
}

// unnest replaces every string that holds a JSON document (as text or base64 of text: what a redaction through
// .json() parses and writes back, with the members of its objects in map order) by the parsed document.
func unnest(v interface{}) interface{} {
	switch x := v.(type) {
	case map[string]interface{}:
		for k, e := range x {
			x[k] = unnest(e)
		}
		return x
	case []interface{}:
		for i, e := range x {
			x[i] = unnest(e)
		}
		return x
	case string:
		t := strings.TrimSpace(x)
		wrapped := false
		if !strings.HasPrefix(t, "{") && !strings.HasPrefix(t, "[") {
			d, err := base64.StdEncoding.DecodeString(x)
			if err != nil {
				return x
			}
			t, wrapped = strings.TrimSpace(string(d)), true
		}
		if strings.HasPrefix(t, "{") || strings.HasPrefix(t, "[") {
			var inner interface{}
			if json.Unmarshal([]byte(t), &inner) == nil {
				return map[string]interface{}{"\x00nested-document": unnest(inner), "\x00base64": wrapped}
			}
		}
		return x
	}
	return v
}

type reuseOut struct {
	Outcome    string      `json:"outcome"` // ok | error (query does not prepare) | panic
	Msg        string      `json:"msg,omitempty"`
	Fresh      []evalObs   `json:"fresh"`      // fresh PrepareQuery per record
	Orders     [][]int     `json:"orders"`     // the record orders tried on the shared tree
	Shared     [][]evalObs `json:"shared"`     // per order, per position
	SnapEqual  []bool      `json:"snap_equal"` // per order: deep dump of the tree unchanged
	Concurrent int         `json:"concurrent_mismatches"`
	ConcEvals  int         `json:"concurrent_evals"`
	ConcSnap   bool        `json:"concurrent_snap_equal"`
}

func doReuse(query string, records []string) (out reuseOut) {
	defer func() {
		if r := recover(); r != nil {
			out.Outcome, out.Msg = "panic", fmt.Sprint(r)
		}
	}()
	shared, _, err := kfl.PrepareQuery(query)
	if err != nil {
		out.Outcome = "error"
		return
	}
	n := len(records)
	for _, r := range records {
		fresh, _, err := kfl.PrepareQuery(query)
		if err != nil {
			out.Outcome = "error"
			return
		}
		out.Fresh = append(out.Fresh, evalObserved(fresh, r))
	}
	// orders: identity, reverse, two rotations, evens-then-odds, each record twice in a row
	id := make([]int, n)
	for i := range id {
		id[i] = i
	}
	rev := make([]int, n)
	for i := range rev {
		rev[i] = n - 1 - i
	}
	rot := func(k int) []int {
		o := make([]int, n)
		for i := range o {
			o[i] = (i + k) % n
		}
		return o
	}
	var eo, twice []int
	for i := 0; i < n; i += 2 {
		eo = append(eo, i)
	}
	for i := 1; i < n; i += 2 {
		eo = append(eo, i)
	}
	for i := 0; i < n; i++ {
		twice = append(twice, i, i)
	}
	out.Orders = [][]int{id, rev, rot(1), rot(n / 2), eo, twice}
	before := snapshot(shared)
	for _, order := range out.Orders {
		var obs []evalObs
		for _, i := range order {
			obs = append(obs, evalObserved(shared, records[i]))
		}
		out.Shared = append(out.Shared, obs)
		out.SnapEqual = append(out.SnapEqual, snapshot(shared) == before)
	}
	// goroutines sharing the tree
	const G, rounds = 8, 25
	var wg sync.WaitGroup
	var mu sync.Mutex
	for g := 0; g < G; g++ {
		wg.Add(1)
		go func(g int) {
			defer wg.Done()
			bad := 0
			for k := 0; k < rounds; k++ {
				for j := 0; j < n; j++ {
					i := (j + g) % n
					if !sameObs(evalObserved(shared, records[i]), out.Fresh[i]) {
						bad++
					}
				}
			}
			mu.Lock()
			out.Concurrent += bad
			out.ConcEvals += rounds * n
			mu.Unlock()
		}(g)
	}
	wg.Wait()
	out.ConcSnap = snapshot(shared) == before
	out.Outcome = "ok"
	return
}

// doReuseCold: the goroutines are the FIRST evaluations of this prepared query (and of its texts: paths, patterns,
// nested documents) in the process; the fresh-copy references are computed afterwards.  Whatever an evaluation sets up
// on first use (a compiled path, a parsed document, a table entry) is then set up by several goroutines at once.
func doReuseCold(query string, records []string) (out reuseOut) {
	defer func() {
		if r := recover(); r != nil {
			out.Outcome, out.Msg = "panic", fmt.Sprint(r)
		}
	}()
	shared, _, err := kfl.PrepareQuery(query)
	if err != nil {
		out.Outcome = "error"
		return
	}
	n := len(records)
	before := snapshot(shared)
	const G = 8
	obs := make([][]evalObs, G)
	start := make(chan struct{})
	var wg sync.WaitGroup
	for g := 0; g < G; g++ {
		obs[g] = make([]evalObs, n)
		wg.Add(1)
		go func(g int) {
			defer wg.Done()
			<-start
			for j := 0; j < n; j++ {
				i := (j + g) % n
				obs[g][i] = evalObserved(shared, records[i])
			}
		}(g)
	}
	close(start)
	wg.Wait()
	out.ConcSnap = snapshot(shared) == before
	for i, r := range records {
		fresh, _, err := kfl.PrepareQuery(query)
		if err != nil {
			out.Outcome = "error"
			return
		}
		f := evalObserved(fresh, r)
		out.Fresh = append(out.Fresh, f)
		for g := 0; g < G; g++ {
			out.ConcEvals++
			if !sameObs(obs[g][i], f) {
				out.Concurrent++
			}
		}
	}
	out.Outcome = "ok"
	return
}

// ------------------------------------------------------------------------------------------- num
type numOut struct {
	Coq string `json:"coq"` // the float as an fv term (for p: "None" or "Some ...")
	G6  string `json:"g6"`  // hex of FormatFloat(x,'g',6,64) / FormatInt
}

func doNum(s string) numOut {
	if s == "" {
		return numOut{}
	}
	switch s[0] {
	case 'f':
		bits, _ := strconv.ParseUint(s[1:], 16, 64)
		f := math.Float64frombits(bits)
		return numOut{Coq: coqFloat(f), G6: hex.EncodeToString([]byte(strconv.FormatFloat(f, 'g', 6, 64)))}
	case 'i':
		i, _ := strconv.ParseInt(s[1:], 10, 64)
		return numOut{Coq: coqFloat(float64(i)), G6: hex.EncodeToString([]byte(strconv.FormatInt(i, 10)))}
	case 'p':
		f, err := strconv.ParseFloat(s[1:], 64)
		if err != nil {
			return numOut{Coq: "None"}
		}
		return numOut{Coq: "(Some " + coqFloat(f) + ")"}
	}
	return numOut{}
}

var _ = jp.Expr{}

// --------------------------------------------------------------------------------------- surface
type surfaceOut struct {
	Outcome string   `json:"outcome"` // ok | error | panic
	Msg     string   `json:"msg,omitempty"`
	Ast     string   `json:"ast,omitempty"`
	Regexes string   `json:"regexes,omitempty"` // Coq list (bytes * bool): regexp.Compile(strings.Trim(token, `"`)) succeeds
	Shape   []string `json:"shape,omitempty"`
}

func collectRegexTokens(e *kfl.Expression, out *[]string) {
	if e == nil || e.Logical == nil {
		return
	}
	var logical func(l *kfl.Logical)
	var equality func(q *kfl.Equality)
	var comparison func(c *kfl.Comparison)
	var unary func(u *kfl.Unary)
	logical = func(l *kfl.Logical) {
		for ; l != nil; l = l.Next {
			equality(l.Equality)
		}
	}
	equality = func(q *kfl.Equality) {
		for ; q != nil; q = q.Next {
			comparison(q.Comparison)
		}
	}
	comparison = func(c *kfl.Comparison) {
		for ; c != nil; c = c.Next {
			unary(c.Unary)
		}
	}
	unary = func(u *kfl.Unary) {
		for u != nil && u.Unary != nil {
			u = u.Unary
		}
		if u == nil || u.Primary == nil {
			return
		}
		p := u.Primary
		if p.Regex != nil {
			*out = append(*out, *p.Regex)
		}
		if p.SubExpression != nil {
			collectRegexTokens(p.SubExpression, out)
		}
		if c := p.CallExpression; c != nil {
			for _, prm := range c.Parameters {
				if prm != nil {
					collectRegexTokens(prm.Expression, out)
				}
			}
			if c.SelectExpression != nil {
				collectRegexTokens(c.SelectExpression.Expression, out)
			}
		}
	}
	logical(e.Logical)
}

func doSurface(query string) (out surfaceOut) {
	defer func() {
		if r := recover(); r != nil {
			out.Outcome, out.Msg = "panic", fmt.Sprint(r)
		}
	}()
	expanded, err := kfl.ExpandMacros(query)
	if err != nil {
		out.Outcome, out.Msg = "error", err.Error()
		return
	}
	expr, err := kfl.Parse(expanded)
	if err != nil {
		out.Outcome, out.Msg = "error", err.Error()
		return
	}
	d := &dumper{}
	out.Ast = d.expr(expr)
	out.Shape = d.shapeErr
	var toks []string
	collectRegexTokens(expr, &toks)
	var parts []string
	for _, t := range uniq(toks) {
		src := strings.Trim(t, "\"")
		_, cerr := regexp.Compile(src)
		parts = append(parts, "("+coqBytes(src)+", "+coqBool(cerr == nil)+")")
	}
	out.Regexes = "[" + strings.Join(parts, "; ") + "]"
	out.Outcome = "ok"
	return
}

// ----------------------------------------------------------------------------------------- paths
type pathOut struct {
	Coq string `json:"coq"` // None | Some (fragments, String())
}

func doPath(s string) (out pathOut) {
	defer func() {
		if r := recover(); r != nil {
			out.Coq = "None"
		}
	}()
	x, err := jp.ParseString(s)
	if err != nil {
		return pathOut{Coq: "None"}
	}
	d := &dumper{}
	return pathOut{Coq: "(Some (" + d.path(x) + ", " + coqBytes(x.String()) + "))"}
}
