//go:build verif

package main

// Printers: the prepared KFL tree, jp.Expr, JSON values and float64 as Coq terms
// (coq/Kfl/KflAst.v, Json.v, Num.v), plus a reflect-based deep dump used as AST snapshot.

import (
	"fmt"
	"math"
	"reflect"
	"regexp"
	"sort"
	"strconv"
	"strings"
	"time"

	"github.com/kubeshark/base/pkg/languages/kfl"
	"github.com/ohler55/ojg/jp"
)

// dumper collects facts about the tree while printing it.
type dumper struct {
	shapeErr    []string // the tree is not of the shape the parser produces
	unsupported []string // jp fragments outside the modelled fragment
	regexps     []string // sources of the compiled regexps
	xmlPaths    []string // String() of every compiled parameter path
	literals    []string // string forms of the literals
	helpers     []string
	hasRedact   bool
}

func coqBytes(s string) string {
	var b strings.Builder
	b.WriteString("(bs [")
	for i := 0; i < len(s); i++ {
		if i > 0 {
			b.WriteByte(';')
		}
		b.WriteString(strconv.Itoa(int(s[i])))
	}
	b.WriteString("]%N)")
	return b.String()
}

func coqOptBytes(s *string) string {
	if s == nil {
		return "None"
	}
	return "(Some " + coqBytes(*s) + ")"
}

func coqZ(n int64) string { return fmt.Sprintf("(%d)%%Z", n) }

func coqBool(b bool) string {
	if b {
		return "true"
	}
	return "false"
}

// coqFloat: the exact value of a float64 as (-1)^neg * m * 2^e.
func coqFloat(f float64) string {
	bits := math.Float64bits(f)
	neg := bits>>63 == 1
	exp := int64((bits >> 52) & 0x7ff)
	mant := bits & (1<<52 - 1)
	if exp == 0x7ff {
		if mant == 0 {
			return "(FInf " + coqBool(neg) + ")"
		}
		return "FNan"
	}
	var m uint64
	var e int64
	if exp == 0 {
		m, e = mant, -1074
	} else {
		m, e = mant|(1<<52), exp-1075
	}
	if m == 0 {
		e = 0
	}
	for m != 0 && m%2 == 0 {
		m /= 2
		e++
	}
	return fmt.Sprintf("(FFin %s %d%%N (%d)%%Z)", coqBool(neg), m, e)
}

// stringOperand of eval.go (unexported there), for the oracle tables.
func stringOperand(operand interface{}) string {
	switch operand := operand.(type) {
	case string:
		return operand
	case int64:
		return strconv.FormatInt(operand, 10)
	case float64:
		return strconv.FormatFloat(operand, 'g', 6, 64)
	case bool:
		return strconv.FormatBool(operand)
	case nil:
		return "null"
	}
	return ""
}

// coqJSON prints a value produced by oj.ParseString. ok=false if a value of an unexpected
// dynamic type is met.
func coqJSON(v interface{}, ok *bool) string {
	switch v := v.(type) {
	case nil:
		return "JNull"
	case bool:
		return "(JBool " + coqBool(v) + ")"
	case int64:
		return "(JInt " + coqZ(v) + ")"
	case float64:
		return "(JFlt " + coqFloat(v) + ")"
	case string:
		return "(JStr " + coqBytes(v) + ")"
	case []interface{}:
		parts := make([]string, len(v))
		for i, x := range v {
			parts[i] = coqJSON(x, ok)
		}
		return "(JArr [" + strings.Join(parts, "; ") + "])"
	case map[string]interface{}:
		keys := make([]string, 0, len(v))
		for k := range v {
			keys = append(keys, k)
		}
		sort.Strings(keys)
		parts := make([]string, len(keys))
		for i, k := range keys {
			parts[i] = "(" + coqBytes(k) + ", " + coqJSON(v[k], ok) + ")"
		}
		return "(JObj [" + strings.Join(parts, "; ") + "])"
	}
	*ok = false
	return "JNull"
}

func (d *dumper) path(x jp.Expr) string {
	parts := make([]string, len(x))
	for i, f := range x {
		switch f := f.(type) {
		case jp.Root:
			parts[i] = "FRoot"
		case jp.Child:
			parts[i] = "FChild " + coqBytes(string(f))
		case jp.Nth:
			parts[i] = "FNth " + coqZ(int64(f))
		case jp.Wildcard:
			parts[i] = "FWild"
		case jp.Descent:
			parts[i] = "FDescent"
		case jp.Bracket:
			parts[i] = "FBracket"
		case jp.At:
			parts[i] = "FAt"
		default:
			parts[i] = "FOther"
			d.unsupported = append(d.unsupported, fmt.Sprintf("%T", f))
		}
	}
	return "[" + strings.Join(parts, "; ") + "]"
}

func (d *dumper) expr(e *kfl.Expression) string {
	if e == nil {
		d.shapeErr = append(d.shapeErr, "nil *Expression")
		return "(Expr LgNone)"
	}
	return "(Expr " + d.logopt(e.Logical) + ")"
}

func (d *dumper) logopt(l *kfl.Logical) string {
	if l == nil {
		return "LgNone"
	}
	var op string
	switch l.Op {
	case "":
		op = "LNone"
	case "and":
		op = "LAnd"
	case "or":
		op = "LOr"
	default:
		op = "LOther"
	}
	if (l.Op == "") != (l.Next == nil) {
		d.shapeErr = append(d.shapeErr, "Logical: Op/Next mismatch")
	}
	return "(LgSome (Logical " + d.equality(l.Equality) + " " + op + " " + d.logopt(l.Next) + "))"
}

func (d *dumper) equality(q *kfl.Equality) string {
	if q == nil {
		d.shapeErr = append(d.shapeErr, "nil *Equality")
		return "(Equality (Comparison (UnPrim (Primary None None None None false ClNone ExNone None None None)) CNone CmNone) ENone EqNone)"
	}
	var op string
	switch q.Op {
	case "":
		op = "ENone"
	case "==":
		op = "EEq"
	case "!=":
		op = "ENe"
	default:
		op = "EOther"
	}
	if (q.Op == "") != (q.Next == nil) {
		d.shapeErr = append(d.shapeErr, "Equality: Op/Next mismatch")
	}
	next := "EqNone"
	if q.Next != nil {
		next = "(EqSome " + d.equality(q.Next) + ")"
	}
	return "(Equality " + d.comparison(q.Comparison) + " " + op + " " + next + ")"
}

func (d *dumper) comparison(c *kfl.Comparison) string {
	if c == nil {
		d.shapeErr = append(d.shapeErr, "nil *Comparison")
		return "(Comparison (UnPrim (Primary None None None None false ClNone ExNone None None None)) CNone CmNone)"
	}
	var op string
	switch c.Op {
	case "":
		op = "CNone"
	case ">":
		op = "CGt"
	case ">=":
		op = "CGe"
	case "<":
		op = "CLt"
	case "<=":
		op = "CLe"
	default:
		op = "COther"
	}
	if (c.Op == "") != (c.Next == nil) {
		d.shapeErr = append(d.shapeErr, "Comparison: Op/Next mismatch")
	}
	next := "CmNone"
	if c.Next != nil {
		next = "(CmSome " + d.comparison(c.Next) + ")"
	}
	return "(Comparison " + d.unary(c.Unary) + " " + op + " " + next + ")"
}

func (d *dumper) unary(u *kfl.Unary) string {
	if u == nil {
		d.shapeErr = append(d.shapeErr, "nil *Unary")
		return "(UnPrim (Primary None None None None false ClNone ExNone None None None))"
	}
	if u.Unary != nil {
		var op string
		switch u.Op {
		case "!":
			op = "UNot"
		case "-":
			op = "UNeg"
		default:
			op = "UOther"
			d.shapeErr = append(d.shapeErr, "Unary: Op "+u.Op)
		}
		if u.Primary != nil {
			d.shapeErr = append(d.shapeErr, "Unary: both Unary and Primary")
		}
		return "(UnOp " + op + " " + d.unary(u.Unary) + ")"
	}
	if u.Primary == nil {
		d.shapeErr = append(d.shapeErr, "Unary: neither Unary nor Primary")
		return "(UnPrim (Primary None None None None false ClNone ExNone None None None))"
	}
	return "(UnPrim " + d.primary(u.Primary) + ")"
}

func (d *dumper) primary(p *kfl.Primary) string {
	num := "None"
	if p.Number != nil {
		num = "(Some " + coqFloat(*p.Number) + ")"
		d.literals = append(d.literals, stringOperand(*p.Number), stringOperand(-*p.Number))
	}
	if p.String != nil {
		d.literals = append(d.literals, strings.Trim(*p.String, "\""))
	}
	b := "None"
	if p.Bool != nil {
		b = "(Some " + coqBool(*p.Bool) + ")"
	}
	call := "ClNone"
	if p.CallExpression != nil {
		call = "(ClSome " + d.call(p.CallExpression) + ")"
	}
	sub := "ExNone"
	if p.SubExpression != nil {
		sub = "(ExSome " + d.expr(p.SubExpression) + ")"
	}
	jpath := "None"
	if p.JsonPath != nil {
		jpath = "(Some " + d.path(*p.JsonPath) + ")"
	}
	re := "None"
	if p.Regexp != nil {
		re = "(Some " + coqBytes(p.Regexp.String()) + ")"
		d.regexps = append(d.regexps, p.Regexp.String())
	}
	if p.Helper != nil {
		d.helpers = append(d.helpers, *p.Helper)
		if *p.Helper == "redact" {
			d.hasRedact = true
		}
	}
	return "(Primary " + num + " " + coqOptBytes(p.String) + " " + coqOptBytes(p.Regex) + " " + b + " " +
		coqBool(p.Nil) + " " + call + " " + sub + " " + jpath + " " + re + " " + coqOptBytes(p.Helper) + ")"
}

func (d *dumper) call(c *kfl.CallExpression) string {
	if c.Identifier == nil {
		d.shapeErr = append(d.shapeErr, "CallExpression: nil Identifier")
	}
	params := "PsAbsent"
	if c.Parameters != nil {
		s := "PsNil"
		for i := len(c.Parameters) - 1; i >= 0; i-- {
			s = "(PsCons " + d.param(c.Parameters[i]) + " " + s + ")"
		}
		params = "(PsList " + s + ")"
	}
	sel := "SlNone"
	if se := c.SelectExpression; se != nil {
		idx := "None"
		if se.Index != nil {
			idx = "(Some " + coqZ(int64(*se.Index)) + ")"
		}
		ex := "ExNone"
		if se.Expression != nil {
			ex = "(ExSome " + d.expr(se.Expression) + ")"
		}
		sel = "(SlSome " + idx + " " + coqOptBytes(se.Key) + " " + coqOptBytes(se.RecursiveDescent) + " " + ex + ")"
	}
	return "(CallExpr " + coqOptBytes(c.Identifier) + " " + params + " " + sel + ")"
}

func (d *dumper) param(p *kfl.Parameter) string {
	if p == nil {
		d.shapeErr = append(d.shapeErr, "nil *Parameter")
		return "(Param None ExNone None false 0%Z)"
	}
	ex := "ExNone"
	if p.Expression != nil {
		ex = "(ExSome " + d.expr(p.Expression) + ")"
	}
	jpath := "None"
	if p.JsonPath != nil {
		s := p.JsonPath.String()
		jpath = "(Some (" + d.path(*p.JsonPath) + ", " + coqBytes(s) + "))"
		d.xmlPaths = append(d.xmlPaths, s)
	}
	var ns int64
	if p.TimeSet {
		ns = p.Time.UnixNano()
	}
	if p.Expression == nil && p.JsonPath == nil && !p.TimeSet {
		d.shapeErr = append(d.shapeErr, "Parameter without Expression, JsonPath or Time")
	}
	return "(Param " + coqOptBytes(p.Tag) + " " + ex + " " + jpath + " " + coqBool(p.TimeSet) + " " + coqZ(ns) + ")"
}

// ---------------------------------------------------------------------------------------------
// deepDump: every field reachable from v, pointers followed, nothing skipped; compiled regexps by
// source, times by UnixNano, jp fragments by type and value.  Two dumps are equal iff the trees are
// indistinguishable to any reader of the exported and unexported fields reached here.
func deepDump(b *strings.Builder, v reflect.Value, depth int) {
	if depth > 100000 {
		b.WriteString("<deep>")
		return
	}
	if !v.IsValid() {
		b.WriteString("<invalid>")
		return
	}
	switch v.Kind() {
	case reflect.Ptr:
		if v.IsNil() {
			b.WriteString("nil")
			return
		}
		if v.Type() == reflect.TypeOf((*regexp.Regexp)(nil)) {
			b.WriteString("regexp(" + strconv.Quote(v.Interface().(*regexp.Regexp).String()) + ")")
			return
		}
		b.WriteString("&")
		deepDump(b, v.Elem(), depth+1)
	case reflect.Struct:
		if v.Type() == reflect.TypeOf(time.Time{}) {
			t := v.Interface().(time.Time)
			b.WriteString(fmt.Sprintf("time(%d,%s)", t.UnixNano(), t.Location()))
			return
		}
		b.WriteString(v.Type().Name() + "{")
		for i := 0; i < v.NumField(); i++ {
			b.WriteString(v.Type().Field(i).Name + ":")
			deepDump(b, v.Field(i), depth+1)
			b.WriteString(",")
		}
		b.WriteString("}")
	case reflect.Slice:
		if v.IsNil() {
			b.WriteString("nilslice")
			return
		}
		b.WriteString(fmt.Sprintf("[len=%d cap=%d:", v.Len(), v.Cap()))
		for i := 0; i < v.Len(); i++ {
			deepDump(b, v.Index(i), depth+1)
			b.WriteString(",")
		}
		b.WriteString("]")
	case reflect.Interface:
		if v.IsNil() {
			b.WriteString("nilif")
			return
		}
		b.WriteString(v.Elem().Type().String() + "(")
		deepDump(b, v.Elem(), depth+1)
		b.WriteString(")")
	case reflect.String:
		b.WriteString(strconv.Quote(v.String()))
	case reflect.Bool:
		b.WriteString(strconv.FormatBool(v.Bool()))
	case reflect.Int, reflect.Int8, reflect.Int16, reflect.Int32, reflect.Int64:
		b.WriteString(strconv.FormatInt(v.Int(), 10))
	case reflect.Uint, reflect.Uint8, reflect.Uint16, reflect.Uint32, reflect.Uint64:
		b.WriteString(strconv.FormatUint(v.Uint(), 10))
	case reflect.Float32, reflect.Float64:
		b.WriteString(strconv.FormatUint(math.Float64bits(v.Float()), 16))
	default:
		b.WriteString("<" + v.Kind().String() + ">")
	}
}

func snapshot(e *kfl.Expression) string {
	var b strings.Builder
	deepDump(&b, reflect.ValueOf(e), 0)
	return b.String()
}
