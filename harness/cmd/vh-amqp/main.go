//go:build verif

// vh-amqp: harness commands for the AMQP 0-9-1 dissector (C05 and the AMQP share of C01, C02,
// C08, C11).  Every command reads one JSON case per line on stdin and prints one JSON result
// per line.  The REAL amqp Dissect is driven for the client and the server half of a
// connection through the mock reader; both halves share matcher, CounterPair, stream and
// emitter; the server half's TcpID has Src = server.
//
//	run    outcome class per half, canonical items, matcher residue
//	stage  run + every item through Marshal -> Unmarshal -> Analyze -> Marshal/Unmarshal ->
//	       Summarize / Represent (with recover); reports the first failure per item
//	cost   run under RLIMIT_AS (flag -mem MiB): reads, TotalAlloc delta, elapsed per case
package main

import (
	"bufio"
	"encoding/hex"
	"encoding/json"
	"fmt"
	"io"
	"math"
	"os"
	"reflect"
	"runtime"
	"sort"
	"strconv"
	"strings"
	"sync"
	"syscall"
	"time"

	"github.com/kubeshark/base/pkg/api"
	amqp "github.com/kubeshark/base/pkg/extensions/amqp"
	"github.com/rs/zerolog"
	stg "verif/harness/stage"

	"verif/harness/mock"
)

type caseIn struct {
	ID    string `json:"id"`
	C     string `json:"c"`  // client-to-server bytes (hex)
	S     string `json:"s"`  // server-to-client bytes (hex)
	CC    []int  `json:"cc"` // cut offsets of the client stream
	SC    []int  `json:"sc"`
	CT    int    `json:"ct"` // tail kind of the client stream (0 EOF, 1 error once, 2 error forever)
	ST    int    `json:"st"`
	Order string `json:"order"` // "cs" (default): client half to its end, then server half; "sc"; or
	// a schedule such as "ccsc...": one letter per Read call granted to that half, both halves
	// running; when the schedule is exhausted the client half is served first.
}

type halfOut struct {
	Out   string `json:"out"` // eof | error | panic | noterm
	Panic string `json:"panic,omitempty"`
	Reads int64  `json:"reads"`
}

type itemOut struct {
	By   string      `json:"by"` // half whose reader completed the pair
	RqM  string      `json:"rqm"`
	Rq   interface{} `json:"rq"`
	RsM  string      `json:"rsm"`
	Rs   interface{} `json:"rs"`
	CI   []string    `json:"ci"` // ClientIP ClientPort ServerIP ServerPort
	raw  *api.OutputChannelItem
	Stg  string        `json:"stage,omitempty"`
	Rep  string        `json:"rep,omitempty"`
	Misc []interface{} `json:"-"`
	C16  *stg.Result   `json:"c16,omitempty"`
}

type caseOut struct {
	ID      string    `json:"id"`
	C       halfOut   `json:"c"`
	S       halfOut   `json:"s"`
	Items   []itemOut `json:"items"`
	Residue []string  `json:"residue"`
	Alloc   uint64    `json:"alloc,omitempty"`
	Micros  int64     `json:"us,omitempty"`
	N       int       `json:"n,omitempty"`
}

// ---------------------------------------------------------------------------------- readers

type noTermination struct{}

// gate serialises the Read calls of the two halves according to a schedule.
type gate struct {
	mu      sync.Mutex
	cond    *sync.Cond
	sched   []byte
	waiting map[byte]bool
	live    map[byte]bool
	granted byte
}

func newGate(sched string, sides []byte) *gate {
	g := &gate{sched: []byte(sched), waiting: map[byte]bool{}, live: map[byte]bool{}}
	g.cond = sync.NewCond(&g.mu)
	for _, s := range sides {
		g.live[s] = true
	}
	return g
}

// decide grants the next Read when every live half is parked.
func (g *gate) decide() {
	if g.granted != 0 {
		return
	}
	for s := range g.live {
		if !g.waiting[s] {
			return
		}
	}
	if len(g.live) == 0 {
		return
	}
	for len(g.sched) > 0 {
		s := g.sched[0]
		g.sched = g.sched[1:]
		if g.live[s] {
			g.granted = s
			g.cond.Broadcast()
			return
		}
	}
	for _, s := range []byte{'c', 's'} {
		if g.live[s] {
			g.granted = s
			g.cond.Broadcast()
			return
		}
	}
}

func (g *gate) acquire(side byte) {
	g.mu.Lock()
	g.waiting[side] = true
	g.decide()
	for g.granted != side {
		g.cond.Wait()
	}
	g.waiting[side] = false
	g.granted = 0
	g.mu.Unlock()
}

func (g *gate) done(side byte) {
	g.mu.Lock()
	delete(g.live, side)
	delete(g.waiting, side)
	g.decide()
	g.mu.Unlock()
}

// reader wraps the mock reader: optional gating, and a budget of Read calls after which the
// run is declared non-terminating (every Read delivers at least one byte or an error, so a
// terminating dissector needs at most len(data)+small reads).
type reader struct {
	*mock.Reader
	side   byte
	g      *gate
	budget int64
}

func (r *reader) Read(p []byte) (int, error) {
	if r.g != nil {
		r.g.acquire(r.side)
	}
	if r.Reader.Reads > r.budget {
		panic(noTermination{})
	}
	return r.Reader.Read(p)
}

type tagEmitter struct {
	mu    *sync.Mutex
	items *[]itemOut
	side  string
}

func (e tagEmitter) Emit(item *api.OutputChannelItem) {
	e.mu.Lock()
	*e.items = append(*e.items, itemOut{By: e.side, raw: item})
	e.mu.Unlock()
}

var dissector = amqp.NewDissector()

func runHalf(r *reader, out *halfOut) {
	defer func() {
		if e := recover(); e != nil {
			if _, ok := e.(noTermination); ok {
				out.Out = "noterm"
			} else {
				out.Out = "panic"
				out.Panic = fmt.Sprint(e)
			}
		}
		out.Reads = r.Reader.Reads
		if r.g != nil {
			r.g.done(r.side)
		}
	}()
	err := dissector.Dissect(bufio.NewReader(r), r)
	if err == io.EOF {
		out.Out = "eof"
	} else {
		out.Out = "error"
	}
}

func runCase(ci *caseIn, canonical bool) *caseOut {
	cb, _ := hex.DecodeString(ci.C)
	sb, _ := hex.DecodeString(ci.S)
	matcher := dissector.NewResponseRequestMatcher()
	stream := &mock.Stream{PcapId: "p"}
	cp := &api.CounterPair{}
	var mu sync.Mutex
	var items []itemOut
	mk := func(data []byte, cuts []int, tail int, isClient bool, side byte) *reader {
		id := &api.TcpID{SrcIP: "10.0.0.1", DstIP: "10.0.0.2", SrcPort: "40000", DstPort: "5672"}
		if !isClient {
			id = &api.TcpID{SrcIP: "10.0.0.2", DstIP: "10.0.0.1", SrcPort: "5672", DstPort: "40000"}
		}
		sort.Ints(cuts)
		return &reader{Reader: &mock.Reader{
			Chunks: mock.Split(data, cuts), TailKind: mock.Tail(tail), Matcher: matcher, IsClient: isClient,
			Progress: &api.ReadProgress{}, Parent: stream, TcpID: id, CounterPair: cp,
			CaptureTime: time.Unix(1700000000, 0), Emitter: tagEmitter{&mu, &items, string(side)},
		}, side: side, budget: int64(len(data)) + 4096}
	}
	rc := mk(cb, ci.CC, ci.CT, true, 'c')
	rs := mk(sb, ci.SC, ci.ST, false, 's')
	out := &caseOut{ID: ci.ID, N: len(cb) + len(sb)}
	switch ci.Order {
	case "", "cs":
		runHalf(rc, &out.C)
		runHalf(rs, &out.S)
	case "sc":
		runHalf(rs, &out.S)
		runHalf(rc, &out.C)
	default:
		g := newGate(ci.Order, []byte{'c', 's'})
		rc.g, rs.g = g, g
		var wg sync.WaitGroup
		wg.Add(2)
		go func() { defer wg.Done(); runHalf(rc, &out.C) }()
		go func() { defer wg.Done(); runHalf(rs, &out.S) }()
		wg.Wait()
	}
	matcher.GetMap().Range(func(k, v interface{}) bool {
		m := v.(*api.GenericMessage)
		kind := "res"
		if m.IsRequest {
			kind = "req"
		}
		name := ""
		if p, ok := m.Payload.(amqp.AMQPPayload); ok {
			if w, ok := p.Data.(*amqp.AMQPWrapper); ok {
				name = w.Method
			}
		}
		out.Residue = append(out.Residue, fmt.Sprintf("%v|%s|%s", k, kind, name))
		return true
	})
	sort.Strings(out.Residue)
	if out.Residue == nil {
		out.Residue = []string{}
	}
	if canonical {
		for i := range items {
			canonItem(&items[i])
		}
	}
	out.Items = items
	if out.Items == nil {
		out.Items = []itemOut{}
	}
	return out
}

// ---------------------------------------------------------------------------------- canonical form

func canonItem(it *itemOut) {
	defer func() {
		if e := recover(); e != nil {
			it.RqM = "canon-panic: " + fmt.Sprint(e)
		}
	}()
	one := func(m api.GenericMessage) (string, interface{}) {
		p, ok := m.Payload.(amqp.AMQPPayload)
		if !ok {
			return "?payload", nil
		}
		w, ok := p.Data.(*amqp.AMQPWrapper)
		if !ok {
			return "?wrapper", nil
		}
		return w.Method, canon(reflect.ValueOf(w.Details))
	}
	it.RqM, it.Rq = one(it.raw.Pair.Request)
	it.RsM, it.Rs = one(it.raw.Pair.Response)
	if c := it.raw.ConnectionInfo; c != nil {
		it.CI = []string{c.ClientIP, c.ClientPort, c.ServerIP, c.ServerPort}
	}
}

var (
	timeType    = reflect.TypeOf(time.Time{})
	decimalType = reflect.TypeOf(amqp.Decimal{})
	bytesType   = reflect.TypeOf([]byte(nil))
)

type kv [2]interface{}

// canon renders a Go value as JSON-able data that keeps the wire type and every byte:
// strings and byte slices as hex, integers as decimal strings with their width, floats by bit
// pattern, times as Unix seconds, tables as key-sorted lists, structs as field lists in
// declaration order (exported fields only).
func canon(v reflect.Value) interface{} {
	if !v.IsValid() {
		return map[string]interface{}{"V": nil}
	}
	switch v.Kind() {
	case reflect.Interface, reflect.Ptr:
		if v.IsNil() {
			return map[string]interface{}{"V": nil}
		}
		return canon(v.Elem())
	case reflect.Struct:
		if v.Type() == timeType {
			t := v.Interface().(time.Time)
			return map[string]interface{}{"T": strconv.FormatInt(t.Unix(), 10)}
		}
		if v.Type() == decimalType {
			d := v.Interface().(amqp.Decimal)
			return map[string]interface{}{"D": []string{strconv.Itoa(int(d.Scale)), strconv.Itoa(int(d.Value))}}
		}
		fields := []kv{}
		for i := 0; i < v.NumField(); i++ {
			f := v.Type().Field(i)
			if f.PkgPath != "" {
				continue
			}
			fields = append(fields, kv{f.Name, canon(v.Field(i))})
		}
		return map[string]interface{}{"R": fields}
	case reflect.String:
		return map[string]interface{}{"s": hex.EncodeToString([]byte(v.String()))}
	case reflect.Bool:
		return map[string]interface{}{"t": v.Bool()}
	case reflect.Uint8, reflect.Uint16, reflect.Uint32, reflect.Uint64:
		return map[string]interface{}{"u": strconv.FormatUint(v.Uint(), 10), "w": v.Type().Bits()}
	case reflect.Int8, reflect.Int16, reflect.Int32, reflect.Int64:
		return map[string]interface{}{"i": strconv.FormatInt(v.Int(), 10), "w": v.Type().Bits()}
	case reflect.Float32:
		return map[string]interface{}{"f": fmt.Sprintf("%08x", math.Float32bits(float32(v.Float())))}
	case reflect.Float64:
		return map[string]interface{}{"d": fmt.Sprintf("%016x", math.Float64bits(v.Float()))}
	case reflect.Slice:
		if v.Type() == bytesType {
			if v.IsNil() {
				return map[string]interface{}{"x": nil}
			}
			return map[string]interface{}{"x": hex.EncodeToString(v.Bytes())}
		}
		if v.IsNil() {
			// a nil slice is reported as null, an empty array as []: not the same entry
			return map[string]interface{}{"A": nil}
		}
		arr := []interface{}{}
		for i := 0; i < v.Len(); i++ {
			arr = append(arr, canon(v.Index(i)))
		}
		return map[string]interface{}{"A": arr}
	case reflect.Map:
		if v.IsNil() {
			return map[string]interface{}{"F": nil}
		}
		keys := []string{}
		for _, k := range v.MapKeys() {
			keys = append(keys, k.String())
		}
		sort.Strings(keys)
		ents := []kv{}
		for _, k := range keys {
			ents = append(ents, kv{hex.EncodeToString([]byte(k)), canon(v.MapIndex(reflect.ValueOf(k)))})
		}
		return map[string]interface{}{"F": ents}
	}
	return map[string]interface{}{"?": v.Kind().String()}
}

// ---------------------------------------------------------------------------------- stages (C11)

type sectionData struct {
	Type     *string `json:"type"`
	Title    *string `json:"title"`
	Data     *string `json:"data"`
	Encoding string  `json:"encoding"`
}

func checkSections(raw json.RawMessage, what string) string {
	if string(raw) == "null" {
		return what + " is null, not a list of sections"
	}
	var secs []sectionData
	if err := json.Unmarshal(raw, &secs); err != nil {
		return what + " is not a list of sections: " + err.Error()
	}
	for _, s := range secs {
		if s.Type == nil || s.Title == nil || s.Data == nil {
			return what + ": section without type/title/data"
		}
		switch *s.Type {
		case api.TABLE:
			var rows []map[string]interface{}
			if err := json.Unmarshal([]byte(*s.Data), &rows); err != nil {
				return what + ": table data does not parse: " + err.Error()
			}
			for _, r := range rows {
				if _, ok := r["name"]; !ok {
					return what + ": table row without name"
				}
			}
		case api.BODY:
		default:
			return what + ": section type " + *s.Type
		}
	}
	return ""
}

// stageItem pushes one emitted item through the JSON round trips and the three later stages
// the way the suite (and the worker/hub) do.  Returns "" or a description of the first failure
// as "<stage>: <what>"; panics are caught per stage.
func stageItem(item *api.OutputChannelItem) (res string, rep string) {
	stage := "marshal-item"
	defer func() {
		if e := recover(); e != nil {
			res = stage + ": panic: " + fmt.Sprint(e)
		}
	}()
	b, err := json.Marshal(item)
	if err != nil {
		return stage + ": " + err.Error(), ""
	}
	stage = "unmarshal-item"
	var it *api.OutputChannelItem
	if err := json.Unmarshal(b, &it); err != nil {
		return stage + ": " + err.Error(), ""
	}
	stage = "analyze"
	entry := dissector.Analyze(it, &api.Resolution{}, &api.Resolution{})
	stage = "marshal-entry"
	eb, err := json.Marshal(entry)
	if err != nil {
		return stage + ": " + err.Error(), ""
	}
	stage = "unmarshal-entry"
	var en *api.Entry
	if err := json.Unmarshal(eb, &en); err != nil {
		return stage + ": " + err.Error(), ""
	}
	stage = "summarize"
	base := dissector.Summarize(en)
	if _, err := json.Marshal(base); err != nil {
		return stage + ": " + err.Error(), ""
	}
	stage = "represent"
	obj, err := dissector.Represent(en.Request, en.Response)
	if err != nil {
		return stage + ": " + err.Error(), ""
	}
	stage = "representation"
	var top map[string]json.RawMessage
	if err := json.Unmarshal(obj, &top); err != nil {
		return stage + ": not a JSON object: " + err.Error(), ""
	}
	rq, ok1 := top["request"]
	rs, ok2 := top["response"]
	if !ok1 || !ok2 {
		return stage + ": request/response missing", ""
	}
	if m := checkSections(rq, "request"); m != "" {
		return stage + ": " + m, ""
	}
	if m := checkSections(rs, "response"); m != "" {
		return stage + ": " + m, ""
	}
	shape := ""
	if string(rq) == "null" {
		shape += "request-null "
	}
	if string(rs) == "null" {
		shape += "response-null"
	}
	return "", strings.TrimSpace(shape)
}

// ---------------------------------------------------------------------------------- main

func main() {
	if len(os.Args) < 2 {
		fmt.Fprintln(os.Stderr, "usage: vh-amqp run|stage|cost [-mem MiB]")
		os.Exit(2)
	}
	mode := os.Args[1]
	zerolog.SetGlobalLevel(zerolog.Disabled)
	if mode == "cost" {
		mem := uint64(1536)
		for i := 2; i+1 < len(os.Args); i++ {
			if os.Args[i] == "-mem" {
				n, _ := strconv.Atoi(os.Args[i+1])
				mem = uint64(n)
			}
		}
		lim := syscall.Rlimit{Cur: mem << 20, Max: mem << 20}
		if err := syscall.Setrlimit(syscall.RLIMIT_AS, &lim); err != nil {
			fmt.Fprintln(os.Stderr, "setrlimit:", err)
			os.Exit(2)
		}
	}
	sc := bufio.NewScanner(os.Stdin)
	sc.Buffer(make([]byte, 1<<20), 1<<28)
	w := bufio.NewWriter(os.Stdout)
	defer w.Flush()
	enc := json.NewEncoder(w)
	for sc.Scan() {
		line := sc.Bytes()
		if len(line) == 0 {
			continue
		}
		var ci caseIn
		if err := json.Unmarshal(line, &ci); err != nil {
			fmt.Fprintln(os.Stderr, "bad case:", err)
			os.Exit(2)
		}
		switch mode {
		case "run":
			enc.Encode(runCase(&ci, true))
		case "stage":
			out := runCase(&ci, true)
			for i := range out.Items {
				out.Items[i].Stg, out.Items[i].Rep = stageItem(out.Items[i].raw)
				r := stg.Run(&api.Extension{Dissector: dissector}, out.Items[i].raw, false)
				out.Items[i].C16 = &r
			}
			enc.Encode(out)
		case "cost":
			// announce the case first so that the parent knows which one killed the process
			fmt.Fprintf(w, "{\"start\":%q}\n", ci.ID)
			w.Flush()
			runtime.GC()
			var m0, m1 runtime.MemStats
			runtime.ReadMemStats(&m0)
			t0 := time.Now()
			out := runCase(&ci, false)
			for i := range out.Items {
				out.Items[i].Stg, _ = stageItem(out.Items[i].raw)
			}
			el := time.Since(t0)
			runtime.ReadMemStats(&m1)
			out.Alloc = m1.TotalAlloc - m0.TotalAlloc
			out.Micros = el.Microseconds()
			nitems := len(out.Items)
			out.Items = []itemOut{}
			out.Residue = []string{strconv.Itoa(nitems)}
			enc.Encode(out)
		default:
			os.Exit(2)
		}
		w.Flush()
	}
}
