//go:build verif

// vh-kfltext: harness commands for the KFL text-level operations
// (C17 macro expansion, C15 redaction).  Every command reads one JSON value per line on stdin
// and prints one JSON object per line; only projected observables are printed.
package main

import (
	"bufio"
	"encoding/json"
	"fmt"
	"io"
	"math/rand"
	"os"
	"runtime"
	"sort"
	"strconv"
	"sync"
	"sync/atomic"

	"github.com/kubeshark/base/pkg/extensions"
	"github.com/kubeshark/base/pkg/languages/kfl"
	"github.com/rs/zerolog"
)

type macro struct {
	Ext  string `json:"ext"`
	Name string `json:"name"`
	Def  string `json:"def"`
}

// extensionMacros lists Dissector.Macros() of every registered extension, sorted by name.
func extensionMacros() []macro {
	extensions.LoadExtensions()
	var ms []macro
	for _, e := range extensions.Extensions {
		for k, v := range e.Dissector.Macros() {
			ms = append(ms, macro{e.Protocol.Name, k, v})
		}
	}
	sort.SliceStable(ms, func(i, j int) bool { return ms[i].Name < ms[j].Name })
	return ms
}

func main() {
	zerolog.SetGlobalLevel(zerolog.Disabled)
	if len(os.Args) < 2 {
		fmt.Fprintln(os.Stderr, "usage: vh-kfltext macros | expand <reps> <shuffles> <seed> [table.json] | redact")
		os.Exit(2)
	}
	switch os.Args[1] {
	case "macros":
		dumpMacros()
	case "expand":
		expand(os.Args[2:])
	case "redact":
		redact()
	default:
		os.Exit(2)
	}
}

// parallel runs f(0..n-1) on a pool of workers (index i is only touched by its own call).
func parallel(n int, f func(i int)) {
	workers := runtime.NumCPU()
	if workers > 8 {
		workers = 8
	}
	var wg sync.WaitGroup
	next := int64(-1)
	for w := 0; w < workers; w++ {
		wg.Add(1)
		go func() {
			defer wg.Done()
			for {
				i := int(atomic.AddInt64(&next, 1))
				if i >= n {
					return
				}
				f(i)
			}
		}()
	}
	wg.Wait()
}

func dumpMacros() {
	out := struct {
		Extensions []macro           `json:"extensions"`
		Table      map[string]string `json:"table"`
	}{extensionMacros(), kfl.VerifMacros()}
	b, _ := json.Marshal(out)
	fmt.Println(string(b))
}

func lines(f func(raw []byte, w *bufio.Writer)) {
	r := bufio.NewReaderSize(os.Stdin, 1<<20)
	w := bufio.NewWriterSize(os.Stdout, 1<<20)
	defer w.Flush()
	for {
		line, err := r.ReadBytes('\n')
		if len(line) > 1 || (len(line) == 1 && line[0] != '\n') {
			f(line, w)
		}
		if err == io.EOF {
			return
		}
		if err != nil {
			fmt.Fprintln(os.Stderr, err)
			os.Exit(1)
		}
	}
}

type expandOut struct {
	Outs      []string `json:"outs"`       // distinct results of ExpandMacros over all repetitions and insertion orders
	Re        []string `json:"re"`         // distinct results of ExpandMacros applied to every element of outs
	Valid     bool     `json:"valid"`      // kfl.Validate(query) == nil
	Prep      bool     `json:"prep"`       // kfl.PrepareQuery(query) returned no error
	Err       bool     `json:"err"`        // some ExpandMacros call returned an error
	Panic     bool     `json:"panic"`      // ExpandMacros panicked
	PrepPanic bool     `json:"prep_panic"` // Validate / PrepareQuery panicked (C13's business; reported, not judged here)
}

// expand <reps> <shuffles> <seed> [table.json]: for every input text run the real ExpandMacros
// reps times (Go re-randomises the map iteration order for every range loop) under shuffles+1
// insertion orders of the macro table (the table is rebuilt through the verif hook; with at most
// eight entries a Go map iterates a rotation of the insertion order, so re-insertion is what
// reaches the other permutations).  table.json ([{name,def}]) replaces the extensions' table.
func expand(args []string) {
	reps, _ := strconv.Atoi(args[0])
	shuffles, _ := strconv.Atoi(args[1])
	seed, _ := strconv.ParseInt(args[2], 10, 64)
	table := extensionMacros()
	if len(args) > 3 && args[3] != "-" {
		b, err := os.ReadFile(args[3])
		if err != nil {
			fmt.Fprintln(os.Stderr, err)
			os.Exit(1)
		}
		table = nil
		if err := json.Unmarshal(b, &table); err != nil {
			fmt.Fprintln(os.Stderr, err)
			os.Exit(1)
		}
	}
	// an earlier life of the process: another table with the same names (other definitions), installed and used
	// before the table under test is installed - the expansion is a function of the query and the CURRENT table
	var pre []macro
	if len(args) > 4 {
		b, err := os.ReadFile(args[4])
		if err != nil {
			fmt.Fprintln(os.Stderr, err)
			os.Exit(1)
		}
		if err := json.Unmarshal(b, &pre); err != nil {
			fmt.Fprintln(os.Stderr, err)
			os.Exit(1)
		}
	}
	rng := rand.New(rand.NewSource(seed))
	var queries []string
	lines(func(raw []byte, w *bufio.Writer) {
		var q string
		if err := json.Unmarshal(raw, &q); err != nil {
			fmt.Fprintln(os.Stderr, "bad input line:", err)
			os.Exit(1)
		}
		queries = append(queries, q)
	})
	outs := make([]map[string]bool, len(queries))
	res := make([]expandOut, len(queries))
	for i := range outs {
		outs[i] = map[string]bool{}
	}
	run := func(i int, q string) (o string) {
		defer func() {
			if r := recover(); r != nil {
				res[i].Panic = true
				o = ""
			}
		}()
		o, err := kfl.ExpandMacros(q)
		if err != nil {
			res[i].Err = true
		}
		return o
	}
	order := make([]int, len(table))
	for i := range order {
		order[i] = i
	}
	if pre != nil {
		kfl.VerifResetMacros()
		for _, m := range pre {
			kfl.AddMacro(m.Name, m.Def)
		}
		for _, q := range queries {
			func() {
				defer func() { recover() }()
				kfl.ExpandMacros(q)
			}()
		}
		// the table under test takes over by redefinition, name by name (no reset in between)
		for _, m := range table {
			kfl.AddMacro(m.Name, m.Def)
		}
		for i, q := range queries {
			outs[i][run(i, q)] = true
		}
	}
	for s := 0; s <= shuffles; s++ {
		if s > 0 {
			rng.Shuffle(len(order), func(a, b int) { order[a], order[b] = order[b], order[a] })
		}
		kfl.VerifResetMacros()
		for _, k := range order {
			kfl.AddMacro(table[k].Name, table[k].Def)
		}
		parallel(len(queries), func(i int) {
			for r := 0; r < reps; r++ {
				outs[i][run(i, queries[i])] = true
			}
		})
	}
	reouts := make([]map[string]bool, len(queries))
	parallel(len(queries), func(i int) {
		reouts[i] = map[string]bool{}
		for o := range outs[i] {
			for r := 0; r < reps; r++ {
				reouts[i][run(i, o)] = true
			}
		}
	})
	w := bufio.NewWriterSize(os.Stdout, 1<<20)
	defer w.Flush()
	for i, q := range queries {
		for o := range outs[i] {
			res[i].Outs = append(res[i].Outs, o)
		}
		sort.Strings(res[i].Outs)
		for o := range reouts[i] {
			res[i].Re = append(res[i].Re, o)
		}
		sort.Strings(res[i].Re)
		func() {
			defer func() {
				if r := recover(); r != nil {
					res[i].PrepPanic = true
				}
			}()
			res[i].Valid = kfl.Validate(q) == nil
			_, _, err := kfl.PrepareQuery(q)
			res[i].Prep = err == nil
		}()
		b, _ := json.Marshal(res[i])
		w.Write(b)
		w.WriteByte('\n')
	}
}

type redactIn struct {
	Q string `json:"q"`
	R string `json:"r"`
}

type redactOut struct {
	Truth bool   `json:"truth"`
	Rec   string `json:"rec"` // the returned record (JSON text as returned by Eval)
	Err   bool   `json:"err"`
	Stage string `json:"stage,omitempty"` // prepare | eval when err
	Panic bool   `json:"panic"`
	// Apply (expand+parse+precompute+eval in one call) on the same input; compared by the caller as
	// values after un-nesting (a re-encoded nested JSON document has Go-map key order)
	Truth2 bool   `json:"truth2"`
	Rec2   string `json:"rec2"`
	Err2   bool   `json:"err2"`
}

// redact: lines {"q": query, "r": record JSON}; runs the real PrepareQuery + Eval, and Apply.
func redact() {
	lines(func(raw []byte, w *bufio.Writer) {
		var in redactIn
		if err := json.Unmarshal(raw, &in); err != nil {
			fmt.Fprintln(os.Stderr, "bad input line:", err)
			os.Exit(1)
		}
		var out redactOut
		func() {
			defer func() {
				if r := recover(); r != nil {
					out.Panic = true
				}
			}()
			expr, _, err := kfl.PrepareQuery(in.Q)
			if err != nil {
				out.Err, out.Stage = true, "prepare"
				return
			}
			truth, rec, err := kfl.Eval(expr, in.R)
			if err != nil {
				out.Err, out.Stage = true, "eval"
				return
			}
			out.Truth, out.Rec = truth, rec
			t2, r2, err := kfl.Apply([]byte(in.R), in.Q)
			out.Truth2, out.Rec2, out.Err2 = t2, r2, err != nil
		}()
		b, _ := json.Marshal(out)
		w.Write(b)
		w.WriteByte('\n')
	})
}
