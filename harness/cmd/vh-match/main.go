//go:build verif

// vh-match: drives the real Dissect of a protocol for both directions of one or several
// connections that share one matcher, (a) sequentially in a chosen arrival order of the
// messages (gated readers: C09) and (b) concurrently under the deterministic scheduler
// through every interleaving of the yield points (C10).
package main

import (
	"bufio"
	"bytes"
	"crypto/sha1"
	"encoding/binary"
	"encoding/json"
	"fmt"
	"io"
	"os"
	"regexp"
	"sort"
	"strconv"
	"strings"
	"sync"
	"time"

	"github.com/kubeshark/base/pkg/api"
	"github.com/kubeshark/base/pkg/extensions"
	"golang.org/x/net/http2"
	"golang.org/x/net/http2/hpack"

	"verif/harness/mock"
	"verif/harness/sched"
)

var pidRe = regexp.MustCompile(`zq(\d+)qz`)

func pidOf(v interface{}) int {
	b, err := json.Marshal(v)
	if err != nil {
		return -1
	}
	m := pidRe.FindSubmatch(b)
	if m == nil {
		return -1
	}
	n, _ := strconv.Atoi(string(m[1]))
	return n
}

// per-side encoder state (HPACK dynamic table of one half connection)
type encState struct {
	hbuf bytes.Buffer
	henc *hpack.Encoder
	sent int // messages encoded for this half so far
}

func newEncState() *encState {
	e := &encState{}
	e.henc = hpack.NewEncoder(&e.hbuf)
	return e
}

func be32(n int) []byte    { b := make([]byte, 4); binary.BigEndian.PutUint32(b, uint32(n)); return b }
func be16(n int) []byte    { b := make([]byte, 2); binary.BigEndian.PutUint16(b, uint16(n)); return b }
func kstr(s string) []byte { return append(be16(len(s)), []byte(s)...) }

// setup bytes a side sends before its first message
func setup(proto string, isClient bool) []byte {
	if proto == "amqp" || proto == "amqphb" {
		if isClient {
			return []byte("AMQP\x00\x00\x09\x01")
		}
		return nil
	}
	if proto != "http2" {
		return nil
	}
	var out bytes.Buffer
	if isClient {
		out.WriteString(http2.ClientPreface)
	}
	fr := http2.NewFramer(&out, nil)
	fr.WriteSettings()
	return out.Bytes()
}

// ---- message encoders (one message carries one pid marker); key = stream id / correlation id
func encode(proto string, isReq bool, pid int, key int, st *encState) []byte {
	mark := fmt.Sprintf("zq%dqz", pid)
	switch proto {
	case "http2":
		st.hbuf.Reset()
		if isReq {
			st.henc.WriteField(hpack.HeaderField{Name: ":method", Value: "GET"})
			st.henc.WriteField(hpack.HeaderField{Name: ":scheme", Value: "http"})
			st.henc.WriteField(hpack.HeaderField{Name: ":authority", Value: "example.com"})
			st.henc.WriteField(hpack.HeaderField{Name: ":path", Value: "/" + mark})
		} else {
			st.henc.WriteField(hpack.HeaderField{Name: ":status", Value: "200"})
			st.henc.WriteField(hpack.HeaderField{Name: "x-id", Value: mark})
		}
		var out bytes.Buffer
		fr := http2.NewFramer(&out, nil)
		fr.WriteHeaders(http2.HeadersFrameParam{StreamID: uint32(key), BlockFragment: append([]byte(nil), st.hbuf.Bytes()...), EndStream: true, EndHeaders: true})
		return out.Bytes()
	case "amqp", "amqphb":
		// queue.declare (50,10) / queue.declare-ok (50,11) on channel `key`; the queue name carries the marker.
		// amqphb: a heartbeat frame travels in front of every second message of a half (same segment)
		var pre []byte
		if proto == "amqphb" {
			st.sent++
			if st.sent%2 == 1 {
				pre = []byte{8, 0, 0, 0, 0, 0, 0, 0xCE}
			}
		}
		var pl []byte
		pl = append(pl, be16(50)...)
		if isReq {
			pl = append(pl, be16(10)...)
			pl = append(pl, be16(0)...)
			pl = append(pl, byte(len(mark)))
			pl = append(pl, mark...)
			pl = append(pl, 0)
			pl = append(pl, be32(0)...)
		} else {
			pl = append(pl, be16(11)...)
			pl = append(pl, byte(len(mark)))
			pl = append(pl, mark...)
			pl = append(pl, be32(3)...)
			pl = append(pl, be32(1)...)
		}
		fr := append(pre, 1)
		fr = append(fr, be16(key)...)
		fr = append(fr, be32(len(pl))...)
		fr = append(fr, pl...)
		return append(fr, 0xCE)
	case "kafka", "kafkadesc", "kafkaslack":
		if proto == "kafkadesc" {
			key = 100000 - key // correlation ids that go DOWN from one request to the next
		}
		var body []byte
		if isReq {
			// Metadata v0 request: header (api key 3, version 0, correlation id, client id) + empty topic array
			body = append(body, be16(3)...)
			body = append(body, be16(0)...)
			body = append(body, be32(key)...)
			body = append(body, kstr(mark)...)
			body = append(body, be32(0)...)
		} else {
			// Metadata v0 response: correlation id, one broker whose host carries the marker, no topics
			body = append(body, be32(key)...)
			body = append(body, be32(1)...)
			body = append(body, be32(7)...)
			body = append(body, kstr(mark)...)
			body = append(body, be32(9092)...)
			body = append(body, be32(0)...)
		}
		if proto == "kafkaslack" {
			// bytes inside the frame after the layout the dissector decodes (tagged fields, a newer version's fields):
			// skipped in frame, and with "+rd" they arrive in a later segment than the fields in front of them
			body = append(body, 0, 1, 2, 3, 4, 5)
		}
		return append(be32(len(body)), body...)
	}
	switch proto {
	case "redissub":
		// Redis with publish/subscribe commands: the k-th command of a connection is SUBSCRIBE, GET, PSUBSCRIBE, GET ...
		// and the k-th reply is the matching acknowledgement array / bulk string
		st.sent++
		kind := st.sent % 4
		if isReq {
			switch kind {
			case 1:
				return []byte(fmt.Sprintf("*2\r\n$9\r\nSUBSCRIBE\r\n$%d\r\n%s\r\n", len(mark), mark))
			case 3:
				return []byte(fmt.Sprintf("*2\r\n$10\r\nPSUBSCRIBE\r\n$%d\r\n%s\r\n", len(mark), mark))
			}
			return []byte(fmt.Sprintf("*2\r\n$3\r\nGET\r\n$%d\r\n%s\r\n", len(mark), mark))
		}
		switch kind {
		case 1:
			return []byte(fmt.Sprintf("*3\r\n$9\r\nsubscribe\r\n$%d\r\n%s\r\n:1\r\n", len(mark), mark))
		case 3:
			return []byte(fmt.Sprintf("*3\r\n$10\r\npsubscribe\r\n$%d\r\n%s\r\n:2\r\n", len(mark), mark))
		}
		return []byte(fmt.Sprintf("$%d\r\n%s\r\n", len(mark), mark))
	case "httphead":
		// HTTP/1.1 whose first, third ... request is a HEAD; its answer declares the length of the body it does not send
		st.sent++
		if isReq {
			if st.sent%2 == 1 {
				return []byte(fmt.Sprintf("HEAD /%s HTTP/1.1\r\nHost: example.com\r\n\r\n", mark))
			}
			return []byte(fmt.Sprintf("GET /%s HTTP/1.1\r\nHost: example.com\r\n\r\n", mark))
		}
		if st.sent%2 == 1 {
			return []byte(fmt.Sprintf("HTTP/1.1 200 OK\r\nContent-Length: 5\r\nX-Id: %s\r\n\r\n", mark))
		}
		return []byte(fmt.Sprintf("HTTP/1.1 200 OK\r\nContent-Length: 0\r\nX-Id: %s\r\n\r\n", mark))
	case "httpup":
		// HTTP/1.1 whose first request of a connection asks for an upgrade to h2c and whose server declines (answers
		// 200 in HTTP/1.1 and goes on in HTTP/1.1): what the client half does next must not depend on whether the
		// answer has been seen already
		st.sent++
		if isReq {
			if st.sent == 1 {
				return []byte(fmt.Sprintf("GET /%s HTTP/1.1\r\nHost: example.com\r\nConnection: Upgrade, HTTP2-Settings\r\nUpgrade: h2c\r\nHTTP2-Settings: AAMAAABkAAQAAP__\r\n\r\n", mark))
			}
			return []byte(fmt.Sprintf("GET /%s HTTP/1.1\r\nHost: example.com\r\n\r\n", mark))
		}
		return []byte(fmt.Sprintf("HTTP/1.1 200 OK\r\nContent-Length: 0\r\nX-Id: %s\r\n\r\n", mark))
	case "redis":
		if isReq {
			return []byte(fmt.Sprintf("*2\r\n$3\r\nGET\r\n$%d\r\n%s\r\n", len(mark), mark))
		}
		return []byte(fmt.Sprintf("$%d\r\n%s\r\n", len(mark), mark))
	case "http":
		if isReq {
			return []byte(fmt.Sprintf("GET /%s HTTP/1.1\r\nHost: example.com\r\n\r\n", mark))
		}
		return []byte(fmt.Sprintf("HTTP/1.1 200 OK\r\nContent-Length: 0\r\nX-Id: %s\r\n\r\n", mark))
	}
	panic("unknown protocol " + proto)
}

type itemOut struct {
	Conn     int  `json:"conn"`
	Req      int  `json:"req"`
	Resp     int  `json:"resp"`
	Oriented bool `json:"oriented"`
	Index    int  `json:"index"`
	ReqSize  int  `json:"reqsize"`
	RespSize int  `json:"respsize"`
	// what the pair reports about its two messages (payloads as JSON), so that a schedule in which a message is
	// handed over before it is complete shows
	Digest string `json:"digest"`
}

type residueOut struct {
	Conn  int    `json:"conn"`
	Key   string `json:"key"`
	IsReq bool   `json:"isreq"`
	Pid   int    `json:"pid"`
	Size  int    `json:"size"`
}

type result struct {
	Items   []itemOut      `json:"items"`
	Residue []residueOut   `json:"residue"`
	Ends    []string       `json:"ends"`
	Panic   string         `json:"panic,omitempty"`
	Fed     map[string]int `json:"fed,omitempty"`
}

type world struct {
	proto    string
	ext      *api.Extension
	matcher  api.RequestResponseMatcher
	stats    *api.AppStats
	out      chan *api.OutputChannelItem
	conns    map[int]*connState
	connList []int
}

type connState struct {
	id      int
	stream  *mock.Stream
	emitter *api.Emitting
	counter *api.CounterPair
	cid     *api.TcpID
	sid     *api.TcpID
}

func newWorld(proto string, conns []int) *world {
	extensions.LoadExtensions()
	extName := proto
	if proto == "http2" || proto == "httpup" || proto == "httphead" {
		extName = "http"
	}
	if proto == "redissub" {
		extName = "redis"
	}
	if proto == "amqphb" {
		extName = "amqp"
	}
	if proto == "kafkadesc" || proto == "kafkaslack" {
		extName = "kafka"
	}
	ext := extensions.ExtensionsMap[extName]
	w := &world{proto: proto, ext: ext, matcher: ext.Dissector.NewResponseRequestMatcher(), stats: &api.AppStats{},
		out: make(chan *api.OutputChannelItem, 4096), conns: map[int]*connState{}, connList: conns}
	w.matcher.SetMaxTry(50)
	for _, c := range conns {
		st := &mock.Stream{PcapId: fmt.Sprintf("s%d", c)}
		// distinct 4-tuples that overlap as much as possible: connections 2 and 3 share the client
		// address, connections 2 and 4 share the client port, all share the server endpoint
		ipn, portn := c, c
		switch c {
		case 3:
			ipn = 2
		case 4:
			portn = 2
		}
		cip, sip := fmt.Sprintf("10.0.0.%d", ipn), "10.1.0.1"
		cport, sport := strconv.Itoa(40000+portn), "6379"
		w.conns[c] = &connState{id: c, stream: st,
			emitter: &api.Emitting{AppStats: w.stats, Stream: st, OutputChannel: w.out},
			counter: &api.CounterPair{},
			cid:     &api.TcpID{SrcIP: cip, DstIP: sip, SrcPort: cport, DstPort: sport},
			sid:     &api.TcpID{SrcIP: sip, DstIP: cip, SrcPort: sport, DstPort: cport}}
	}
	return w
}

func (w *world) reader(c int, isClient bool) *mock.Reader {
	cs := w.conns[c]
	r := &mock.Reader{Matcher: w.matcher, IsClient: isClient, Progress: &api.ReadProgress{}, Parent: cs.stream,
		CounterPair: cs.counter, CaptureTime: time.Unix(1700000000, 0), Emitter: cs.emitter}
	if isClient {
		r.TcpID = cs.cid
	} else {
		r.TcpID = cs.sid
	}
	return r
}

func (w *world) collect() result {
	var res result
	for {
		select {
		case it := <-w.out:
			o := itemOut{Req: pidOf(it.Pair.Request.Payload), Resp: pidOf(it.Pair.Response.Payload), Conn: -1, Index: int(it.Index),
				ReqSize: it.Pair.Request.CaptureSize, RespSize: it.Pair.Response.CaptureSize}
			if rq, err := json.Marshal(it.Pair.Request.Payload); err == nil {
				if rs, err := json.Marshal(it.Pair.Response.Payload); err == nil {
					o.Digest = fmt.Sprintf("%x", sha1.Sum(append(append(rq, 0), rs...)))
				}
			}
			for _, c := range w.connList {
				cs := w.conns[c]
				if it.ConnectionInfo != nil && it.ConnectionInfo.ClientIP == cs.cid.SrcIP && it.ConnectionInfo.ClientPort == cs.cid.SrcPort {
					o.Conn = c
					o.Oriented = it.ConnectionInfo.ServerIP == cs.cid.DstIP && it.ConnectionInfo.ClientPort == cs.cid.SrcPort &&
						it.ConnectionInfo.ServerPort == cs.cid.DstPort && it.Pair.Request.IsRequest && !it.Pair.Response.IsRequest &&
						it.Stream == cs.stream.PcapId
				}
			}
			res.Items = append(res.Items, o)
			continue
		default:
		}
		break
	}
	w.matcher.GetMap().Range(func(k, v interface{}) bool {
		ro := residueOut{Key: k.(string), Pid: -1, Conn: -1}
		fields := strings.Split(ro.Key, "_")
		for _, c := range w.connList {
			cs := w.conns[c]
			hasIP, hasPort := false, false
			for _, f := range fields {
				if f == cs.cid.SrcIP {
					hasIP = true
				}
				if f == cs.cid.SrcPort {
					hasPort = true
				}
			}
			if hasIP && hasPort {
				ro.Conn = c
			}
		}
		if gm, ok := v.(*api.GenericMessage); ok {
			ro.IsReq = gm.IsRequest
			ro.Pid = pidOf(gm.Payload)
			ro.Size = gm.CaptureSize
		} else {
			ro.IsReq = true
			ro.Pid = pidOf(v)
		}
		res.Residue = append(res.Residue, ro)
		return true
	})
	sort.Slice(res.Residue, func(i, j int) bool { return res.Residue[i].Key < res.Residue[j].Key })
	return res
}

// ---- gated reader: hands out one message per grant and reports when it is asked for more
type gated struct {
	*mock.Reader
	feed chan []byte
	want chan struct{}
	buf  []byte
}

func (g *gated) Read(p []byte) (int, error) {
	if len(g.buf) == 0 {
		g.want <- struct{}{}
		b, ok := <-g.feed
		if !ok {
			return 0, io.EOF
		}
		g.buf = b
	}
	n := copy(p, g.buf)
	g.buf = g.buf[n:]
	g.Progress.Feed(n)
	return n, nil
}

type side struct {
	conn     int
	isClient bool
}

// seq: stdin lines "<proto>|<conn>:<c|s>:<pid> <conn>:<c|s>:<pid> ..." (arrival history)
func seqMode() {
	sc := bufio.NewScanner(os.Stdin)
	sc.Buffer(make([]byte, 1<<20), 1<<26)
	w := bufio.NewWriter(os.Stdout)
	defer w.Flush()
	for sc.Scan() {
		line := sc.Text()
		parts := strings.SplitN(line, "|", 2)
		proto := parts[0]
		type ev struct {
			s   side
			pid int
			key int
		}
		var evs []ev
		connSet := map[int]bool{}
		for _, tok := range strings.Fields(parts[1]) {
			f := strings.Split(tok, ":")
			c, _ := strconv.Atoi(f[0])
			p, _ := strconv.Atoi(f[2])
			k := 0
			if len(f) > 3 {
				k, _ = strconv.Atoi(f[3])
			}
			evs = append(evs, ev{side{c, f[1] == "c"}, p, k})
			connSet[c] = true
		}
		var conns []int
		for c := range connSet {
			conns = append(conns, c)
		}
		sort.Ints(conns)
		res := runSeq(proto, conns, func(deliver func(s side, data []byte) bool) {
			encs := map[side]*encState{}
			for _, e := range evs {
				if encs[e.s] == nil {
					encs[e.s] = newEncState()
					if sb := setup(proto, e.s.isClient); sb != nil {
						deliver(e.s, sb)
					}
				}
				deliver(e.s, encode(proto, e.s.isClient, e.pid, e.key, encs[e.s]))
			}
		})
		b, _ := json.Marshal(res)
		w.Write(b)
		w.WriteString("\n")
	}
}

func runSeq(proto string, conns []int, script func(deliver func(s side, data []byte) bool)) (res result) {
	wd := newWorld(proto, conns)
	readers := map[side]*gated{}
	done := map[side]chan string{}
	for _, c := range conns {
		for _, isClient := range []bool{true, false} {
			s := side{c, isClient}
			g := &gated{Reader: wd.reader(c, isClient), feed: make(chan []byte), want: make(chan struct{}, 1)}
			readers[s] = g
			d := make(chan string, 1)
			done[s] = d
			go func() {
				defer func() {
					if r := recover(); r != nil {
						d <- fmt.Sprintf("panic: %v", r)
					}
				}()
				err := wd.ext.Dissector.Dissect(bufio.NewReader(g), g)
				if err == nil || err == io.EOF || err == io.ErrUnexpectedEOF {
					d <- "eof"
				} else {
					d <- "error"
				}
			}()
		}
	}
	finished := map[side]string{}
	// wait until the side asks for input (or has ended)
	idle := func(s side) bool {
		if _, ok := finished[s]; ok {
			return false
		}
		select {
		case <-readers[s].want:
			return true
		case e := <-done[s]:
			finished[s] = e
			return false
		case <-time.After(10 * time.Second):
			finished[s] = "stuck"
			return false
		}
	}
	asking := map[side]bool{}
	fed := map[string]int{}
	deliver := func(s side, data []byte) bool {
		if !asking[s] {
			if !idle(s) {
				return false
			}
		}
		asking[s] = false
		d := "s"
		if s.isClient {
			d = "c"
		}
		fed[fmt.Sprintf("%d:%s", s.conn, d)] += len(data)
		readers[s].feed <- data
		// the message has been handled when the side asks again (or ends)
		if idle(s) {
			asking[s] = true
		}
		return true
	}
	script(deliver)
	var sides []side
	for s := range readers {
		sides = append(sides, s)
	}
	sort.Slice(sides, func(i, j int) bool {
		if sides[i].conn != sides[j].conn {
			return sides[i].conn < sides[j].conn
		}
		return sides[i].isClient && !sides[j].isClient
	})
	for _, s := range sides {
		if _, ok := finished[s]; ok {
			continue
		}
		if !asking[s] {
			if !idle(s) {
				continue
			}
		}
		close(readers[s].feed)
		select {
		case e := <-done[s]:
			finished[s] = e
		case <-time.After(10 * time.Second):
			finished[s] = "stuck"
		}
	}
	res = wd.collect()
	res.Fed = fed
	for _, s := range sides {
		res.Ends = append(res.Ends, finished[s])
		if strings.HasPrefix(finished[s], "panic") {
			res.Panic = finished[s]
		}
	}
	return res
}

// conc <proto> <maxRuns> <conn>:<c|s>:<pid,pid,...> ...   every schedule of the yield points
func concMode(args []string) {
	proto := args[0]
	// "<proto>+rd": every message arrives in two segments and every Read of a half is a scheduling point (the other
	// half can run while a message is only partly there)
	readYields := strings.HasSuffix(proto, "+rd")
	proto = strings.TrimSuffix(proto, "+rd")
	maxRuns, _ := strconv.Atoi(args[1])
	var onePrefix []string
	single := false
	if strings.HasPrefix(args[1], "prefix=") {
		// replay of one schedule: the worker names in order
		single = true
		for _, x := range strings.Split(strings.TrimPrefix(args[1], "prefix="), ",") {
			if x != "" {
				onePrefix = append(onePrefix, x)
			}
		}
	}
	type thr struct {
		s    side
		pids []int
	}
	var thrs []thr
	connSet := map[int]bool{}
	for _, tok := range args[2:] {
		f := strings.Split(tok, ":")
		c, _ := strconv.Atoi(f[0])
		var pids []int
		for _, x := range strings.Split(f[2], ",") {
			if x != "" {
				p, _ := strconv.Atoi(x)
				pids = append(pids, p)
			}
		}
		thrs = append(thrs, thr{side{c, f[1] == "c"}, pids})
		connSet[c] = true
	}
	var conns []int
	for c := range connSet {
		conns = append(conns, c)
	}
	sort.Ints(conns)
	var names []string
	for i := range thrs {
		names = append(names, fmt.Sprintf("t%d", i))
	}
	w := bufio.NewWriter(os.Stdout)
	defer w.Flush()
	enc := json.NewEncoder(w)
	type outT struct {
		Steps []sched.Step `json:"steps"`
		Res   *result      `json:"res,omitempty"`
		Err   string       `json:"err,omitempty"`
	}
	mkWorld := func() (map[string]func(), func() string) {
		wd := newWorld(proto, conns)
		bodies := map[string]func(){}
		var mu sync.Mutex
		ends := make([]string, len(thrs))
		for i, t := range thrs {
			i, t := i, t
			bodies[names[i]] = func() {
				r := wd.reader(t.s.conn, t.s.isClient)
				es := newEncState()
				if sb := setup(proto, t.s.isClient); sb != nil {
					r.Chunks = append(r.Chunks, sb)
				}
				for j, p := range t.pids {
					m := encode(proto, t.s.isClient, p, 2*j+1, es)
					if readYields && len(m) > 12 {
						// the last bytes of the message come in a segment of their own: everything in front of them
						// (framing, header, most of the body) is there when the reader has to wait
						cut := len(m) - 2
						r.Chunks = append(r.Chunks, m[:cut], m[cut:])
					} else {
						r.Chunks = append(r.Chunks, m)
					}
				}
				if readYields {
					r.OnRead = func() { api.VerifYieldPoint("reader.read") }
				}
				e := "eof"
				func() {
					defer func() {
						if rec := recover(); rec != nil {
							e = fmt.Sprintf("panic: %v", rec)
						}
					}()
					err := wd.ext.Dissector.Dissect(bufio.NewReader(r), r)
					if !(err == nil || err == io.EOF || err == io.ErrUnexpectedEOF) {
						e = "error"
					}
				}()
				mu.Lock()
				ends[i] = e
				mu.Unlock()
			}
		}
		return bodies, func() string {
			res := wd.collect()
			res.Ends = ends
			b, _ := json.Marshal(res)
			return string(b)
		}
	}
	visit := func(steps []sched.Step, obs string, err error) bool {
		o := outT{Steps: steps}
		if err != nil {
			o.Err = err.Error()
		} else {
			var r result
			json.Unmarshal([]byte(obs), &r)
			o.Res = &r
		}
		enc.Encode(o)
		return true
	}
	if single {
		bodies, observe := mkWorld()
		steps, err := sched.Exec(names, bodies, onePrefix, 100000)
		obs := ""
		if err == nil {
			obs = observe()
		}
		visit(steps, obs, err)
		return
	}
	runs, complete := sched.Explore(names, mkWorld, 100000, maxRuns, visit)
	fmt.Fprintf(w, "{\"runs\":%d,\"complete\":%v}\n", runs, complete)
}

// stress <proto> <iterations> <exchanges>: free-running goroutines (no scheduler), both
// directions started together; counts runs whose items differ from the expected pairs.
func stressMode(args []string) {
	proto := args[0]
	iters, _ := strconv.Atoi(args[1])
	nx, _ := strconv.Atoi(args[2])
	bad := 0
	var firstBad *result
	for it := 0; it < iters; it++ {
		wd := newWorld(proto, []int{1})
		var wg sync.WaitGroup
		start := make(chan struct{})
		for _, isClient := range []bool{true, false} {
			isClient := isClient
			r := wd.reader(1, isClient)
			es := newEncState()
			if sb := setup(proto, isClient); sb != nil {
				r.Chunks = append(r.Chunks, sb)
			}
			for k := 0; k < nx; k++ {
				pid := 100 + k
				if !isClient {
					pid = 200 + k
				}
				r.Chunks = append(r.Chunks, encode(proto, isClient, pid, 2*k+1, es))
			}
			wg.Add(1)
			go func() {
				defer wg.Done()
				defer func() { recover() }()
				<-start
				wd.ext.Dissector.Dissect(bufio.NewReader(r), r)
			}()
		}
		close(start)
		wg.Wait()
		res := wd.collect()
		ok := len(res.Items) == nx && len(res.Residue) == 0
		seen := map[int]bool{}
		for _, i := range res.Items {
			if i.Resp-i.Req != 100 || seen[i.Req] || !i.Oriented {
				ok = false
			}
			seen[i.Req] = true
		}
		if !ok {
			bad++
			if firstBad == nil {
				r := res
				firstBad = &r
			}
		}
	}
	b, _ := json.Marshal(map[string]interface{}{"iterations": iters, "bad": bad, "first_bad": firstBad})
	fmt.Println(string(b))
}

func main() {
	if len(os.Args) < 2 {
		fmt.Fprintln(os.Stderr, "usage: vh-match seq | conc <proto> <maxRuns> <threads...>")
		os.Exit(2)
	}
	switch os.Args[1] {
	case "seq":
		seqMode()
	case "conc":
		concMode(os.Args[2:])
	case "stress":
		stressMode(os.Args[2:])
	default:
		os.Exit(2)
	}
}
