// Package stage pushes one emitted item through the stages the worker and hub apply after
// dissection — JSON round trip, Analyze, JSON round trip, Summarize, Represent — with recover
// around every stage, validates the form of the results (C11) and evaluates the entry's own
// click-to-filter queries and every registered macro on the entry with the real kfl.Apply (C16).
package stage

import (
	"encoding/json"
	"fmt"
	"os"
	"sort"
	"strings"
	"time"

	"github.com/kubeshark/base/pkg/api"
	"github.com/kubeshark/base/pkg/extensions"
	"github.com/kubeshark/base/pkg/languages/kfl"
	"github.com/rs/zerolog"
)

func init() {
	// kfl logs every query error through zerolog on stderr; the harness reports them itself
	zerolog.SetGlobalLevel(zerolog.Disabled)
}

type QueryResult struct {
	Which string `json:"which"`
	Query string `json:"query"`
	Valid bool   `json:"valid"`
	Truth bool   `json:"truth"`
	Err   string `json:"err,omitempty"`
}

type MacroResult struct {
	Macro    string `json:"macro"`
	Truth    bool   `json:"truth"`
	Expected bool   `json:"expected"`
	Err      string `json:"err,omitempty"`
}

type Result struct {
	Panic     string        `json:"panic,omitempty"` // "<stage>: <value>"
	Problems  []string      `json:"problems,omitempty"`
	Protocol  string        `json:"protocol"`
	Macro     string        `json:"macro"`
	Method    string        `json:"method"`
	Summary   string        `json:"summary"`
	Queries   []QueryResult `json:"queries"`
	Macros    []MacroResult `json:"macros"`
	Sections  int           `json:"sections"`
	ItemBytes int           `json:"item_bytes"`
	Micros    int64         `json:"micros"`
	EntryJSON string        `json:"entry_json,omitempty"`
	// with VERIF_STAGE_DUMP=1: the request / response maps exactly as Summarize and Represent
	// receive them (after both JSON round trips), for the model-vs-implementation check of C11
	StageReq  json.RawMessage `json:"stage_req,omitempty"`
	StageResp json.RawMessage `json:"stage_resp,omitempty"`
}

var stageDump = os.Getenv("VERIF_STAGE_DUMP") == "1"

// with VERIF_KEEP_ENTRY=1 the entry's JSON (what kfl.Apply is applied to) is kept in the result (C16's correspondence)
var keepEntryEnv = os.Getenv("VERIF_KEEP_ENTRY") == "1"

// StageDumpLimit bounds the size of the dumped maps of one item.
const StageDumpLimit = 48 << 10

func guard(stage string, res *Result, f func()) (ok bool) {
	defer func() {
		if r := recover(); r != nil {
			res.Panic = fmt.Sprintf("%s: %v", stage, r)
			ok = false
		}
	}()
	f()
	return true
}

var macroNames []string
var macroOnce bool

func allMacros() []string {
	if !macroOnce {
		macroOnce = true
		extensions.LoadExtensions()
		seen := map[string]bool{}
		for _, e := range extensions.Extensions {
			for k := range e.Dissector.Macros() {
				if !seen[k] {
					seen[k] = true
					macroNames = append(macroNames, k)
				}
			}
		}
		sort.Strings(macroNames)
	}
	return macroNames
}

func checkSection(kind string, i int, sec interface{}, res *Result) {
	m, ok := sec.(map[string]interface{})
	if !ok {
		res.Problems = append(res.Problems, fmt.Sprintf("%s[%d] is not an object", kind, i))
		return
	}
	typ, _ := m["type"].(string)
	data, isStr := m["data"].(string)
	if !isStr {
		res.Problems = append(res.Problems, fmt.Sprintf("%s[%d].data is not a string", kind, i))
		return
	}
	switch typ {
	case api.TABLE:
		var rows []map[string]interface{}
		if err := json.Unmarshal([]byte(data), &rows); err != nil {
			res.Problems = append(res.Problems, fmt.Sprintf("%s[%d] table data does not parse: %v", kind, i, err))
			return
		}
		for j, r := range rows {
			if _, ok := r["name"].(string); !ok {
				res.Problems = append(res.Problems, fmt.Sprintf("%s[%d] row %d has no name", kind, i, j))
			}
			if _, ok := r["selector"].(string); !ok {
				res.Problems = append(res.Problems, fmt.Sprintf("%s[%d] row %d has no selector", kind, i, j))
			}
		}
	case api.BODY:
		// contents are an opaque (possibly base64) string
	default:
		res.Problems = append(res.Problems, fmt.Sprintf("%s[%d] has type %q", kind, i, typ))
	}
	res.Sections++
}

// Run executes all stages for one item of the given extension.
func Run(ext *api.Extension, item *api.OutputChannelItem, keepEntry bool) (res Result) {
	t0 := time.Now()
	defer func() { res.Micros = time.Since(t0).Microseconds() }()
	var itemJSON []byte
	var item2 api.OutputChannelItem
	if !guard("marshal-item", &res, func() {
		var err error
		itemJSON, err = json.Marshal(item)
		if err != nil {
			res.Problems = append(res.Problems, "item does not serialise: "+err.Error())
			return
		}
		if err = json.Unmarshal(itemJSON, &item2); err != nil {
			res.Problems = append(res.Problems, "item does not deserialise: "+err.Error())
		}
	}) || len(res.Problems) > 0 {
		return
	}
	res.ItemBytes = len(itemJSON)
	var entry *api.Entry
	if !guard("analyze", &res, func() {
		entry = ext.Dissector.Analyze(&item2, &api.Resolution{IP: "10.0.0.1", Port: "1"}, &api.Resolution{IP: "10.0.0.2", Port: "2"})
	}) {
		return
	}
	if entry == nil {
		res.Problems = append(res.Problems, "Analyze returned nil")
		return
	}
	entry.Worker = "w"
	entry.BuildId()
	var entryJSON []byte
	var entry2 api.Entry
	if !guard("marshal-entry", &res, func() {
		var err error
		entryJSON, err = json.Marshal(entry)
		if err != nil {
			res.Problems = append(res.Problems, "entry does not serialise: "+err.Error())
			return
		}
		if err = json.Unmarshal(entryJSON, &entry2); err != nil {
			res.Problems = append(res.Problems, "entry does not deserialise: "+err.Error())
		}
	}) || len(res.Problems) > 0 {
		return
	}
	if keepEntry || (keepEntryEnv && len(entryJSON) <= StageDumpLimit) {
		res.EntryJSON = string(entryJSON)
	}
	res.Protocol = entry2.Protocol.Name + "/" + entry2.Protocol.Version + "/" + entry2.Protocol.Abbreviation
	res.Macro = entry2.Protocol.Macro
	if stageDump {
		switch entry2.Protocol.Name {
		case "redis", "amqp", "kafka", "http", "dns":
			rq, err1 := json.Marshal(entry2.Request)
			rs, err2 := json.Marshal(entry2.Response)
			if err1 == nil && err2 == nil && len(rq)+len(rs) <= StageDumpLimit {
				res.StageReq, res.StageResp = rq, rs
			}
		}
	}
	var base *api.BaseEntry
	if !guard("summarize", &res, func() { base = ext.Dissector.Summarize(&entry2) }) {
		return
	}
	if base == nil {
		res.Problems = append(res.Problems, "Summarize returned nil")
		return
	}
	res.Method, res.Summary = base.Method, base.Summary
	if _, err := json.Marshal(base); err != nil {
		res.Problems = append(res.Problems, "base entry does not serialise: "+err.Error())
	}
	var rep []byte
	if !guard("represent", &res, func() {
		var err error
		rep, err = ext.Dissector.Represent(entry2.Request, entry2.Response)
		if err != nil {
			res.Problems = append(res.Problems, "Represent error: "+err.Error())
		}
	}) {
		return
	}
	var repObj map[string]interface{}
	if err := json.Unmarshal(rep, &repObj); err != nil {
		res.Problems = append(res.Problems, "representation is not a JSON object: "+err.Error())
	} else {
		for _, kind := range []string{"request", "response"} {
			v, present := repObj[kind]
			if !present {
				res.Problems = append(res.Problems, "representation has no "+kind)
				continue
			}
			if v == nil {
				continue // an empty list of sections is rendered as null
			}
			list, ok := v.([]interface{})
			if !ok {
				res.Problems = append(res.Problems, "representation "+kind+" is not a list")
				continue
			}
			for i, sec := range list {
				checkSection(kind, i, sec, &res)
			}
		}
	}
	// C16: the entry's own queries and every macro, with the real KFL
	guard("kfl", &res, func() {
		for _, q := range [][2]string{{"method", base.MethodQuery}, {"summary", base.SummaryQuery}, {"status", base.StatusQuery}} {
			if strings.TrimSpace(q[1]) == "" {
				continue
			}
			qr := QueryResult{Which: q[0], Query: q[1], Valid: kfl.Validate(q[1]) == nil}
			t, _, err := kfl.Apply(entryJSON, q[1])
			qr.Truth = t
			if err != nil {
				qr.Err = err.Error()
			}
			res.Queries = append(res.Queries, qr)
		}
		for _, m := range allMacros() {
			t, _, err := kfl.Apply(entryJSON, m)
			mr := MacroResult{Macro: m, Truth: t, Expected: entry2.Protocol.Macro == m}
			if err != nil {
				mr.Err = err.Error()
			}
			res.Macros = append(res.Macros, mr)
		}
	})
	return
}
