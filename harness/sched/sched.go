//go:build verif

// Package sched is a deterministic token-passing scheduler that drives real code of
// kubeshark/base through chosen interleavings of the atomic steps separated by the yield
// hooks (api.VerifYield, build tag verif).  Exactly one worker runs at a time; a worker
// runs from one yield point to the next.
package sched

import (
	"bytes"
	"fmt"
	"runtime"
	"strconv"
	"strings"
	"sync"
	"time"

	"github.com/kubeshark/base/pkg/api"
)

func goid() int64 {
	var buf [64]byte
	n := runtime.Stack(buf[:], false)
	// "goroutine 123 [running]:"
	f := bytes.Fields(buf[:n])
	id, _ := strconv.ParseInt(string(f[1]), 10, 64)
	return id
}

type worker struct {
	name    string
	resume  chan struct{}
	site    string // where it is parked
	done    bool
	stutter bool // parked at a blocked: site and already re-tried since the last step of another worker
}

type event struct {
	w    *worker
	done bool
	site string
}

// Step is one scheduling decision and where the chosen worker stopped next.
type Step struct {
	Worker  string
	Site    string // site reached after the step ("" = finished)
	Blocked bool   // the step was a stutter on a held lock
	Enabled []string
}

type Run struct {
	mu      sync.Mutex
	byGoid  map[int64]*worker
	workers []*worker
	events  chan event
}

var current *Run
var curMu sync.Mutex

func (r *Run) yield(site string) {
	r.mu.Lock()
	w := r.byGoid[goid()]
	r.mu.Unlock()
	if w == nil {
		return // not a scheduled worker (e.g. a consumer goroutine)
	}
	w.site = site
	r.events <- event{w: w, site: site}
	<-w.resume
}

// Exec runs the named workers under the schedule prefix (worker names); when the prefix is
// exhausted (or names a worker that is not enabled) the first enabled worker in declaration
// order is chosen.  It returns the steps actually taken.
func Exec(names []string, bodies map[string]func(), prefix []string, maxSteps int) ([]Step, error) {
	curMu.Lock()
	defer curMu.Unlock()
	r := &Run{byGoid: map[int64]*worker{}, events: make(chan event)}
	api.VerifYield = r.yield
	defer func() { api.VerifYield = nil }()
	for _, n := range names {
		w := &worker{name: n, resume: make(chan struct{})}
		r.workers = append(r.workers, w)
	}
	for _, w := range r.workers {
		w := w
		body := bodies[w.name]
		go func() {
			r.mu.Lock()
			r.byGoid[goid()] = w
			r.mu.Unlock()
			r.yield("start")
			body()
			r.mu.Lock()
			delete(r.byGoid, goid())
			r.mu.Unlock()
			r.events <- event{w: w, done: true}
		}()
	}
	// wait until every worker is parked at "start"
	for i := 0; i < len(r.workers); i++ {
		if err := r.wait(nil); err != nil {
			return nil, err
		}
	}
	var steps []Step
	pi := 0
	for {
		var enabled []*worker
		var live int
		for _, w := range r.workers {
			if !w.done {
				live++
				if !w.stutter {
					enabled = append(enabled, w)
				}
			}
		}
		if live == 0 {
			return steps, nil
		}
		if len(enabled) == 0 {
			return steps, fmt.Errorf("deadlock: every live worker is blocked")
		}
		if len(steps) >= maxSteps {
			return steps, fmt.Errorf("step bound %d exceeded", maxSteps)
		}
		var pick *worker
		if pi < len(prefix) {
			for _, w := range enabled {
				if w.name == prefix[pi] {
					pick = w
				}
			}
			pi++
		}
		if pick == nil {
			pick = enabled[0]
		}
		en := make([]string, len(enabled))
		for i, w := range enabled {
			en[i] = w.name
		}
		prevSite := pick.site
		pick.resume <- struct{}{}
		if err := r.wait(pick); err != nil {
			return steps, err
		}
		st := Step{Worker: pick.name, Enabled: en}
		if !pick.done {
			st.Site = pick.site
		}
		// waiting sites: in front of a held lock, or polling for something another worker must provide
		atLock := !pick.done && (strings.HasPrefix(pick.site, "blocked:") || strings.HasSuffix(pick.site, ".poll"))
		if atLock && prevSite == pick.site {
			// re-tried a lock that is still held: nothing happened
			st.Blocked = true
		} else {
			// a real step: locks may have been released, blocked workers may try again
			for _, w := range r.workers {
				w.stutter = false
			}
		}
		// a worker parked in front of a held lock stays disabled until another worker moves
		pick.stutter = atLock
		steps = append(steps, st)
	}
}

func (r *Run) wait(expect *worker) error {
	select {
	case ev := <-r.events:
		if ev.done {
			ev.w.done = true
			ev.w.site = ""
		}
		if expect != nil && ev.w != expect {
			return fmt.Errorf("event from %s while %s was running", ev.w.name, expect.name)
		}
		return nil
	case <-time.After(20 * time.Second):
		return fmt.Errorf("scheduler timeout (a worker blocked outside a yield point)")
	}
}

// Explore enumerates every schedule by depth-first re-execution.  mk builds fresh workers
// for each run and returns, after the run, an observation string.  visit is called once per
// complete schedule.  Returns the number of schedules explored.
func Explore(names []string, mk func() (map[string]func(), func() string), maxSteps, maxRuns int,
	visit func(steps []Step, obs string, err error) bool) (int, bool) {
	type frame struct {
		enabled []string
		idx     int
	}
	var stack []frame
	runs := 0
	for {
		prefix := make([]string, len(stack))
		for i, f := range stack {
			prefix[i] = f.enabled[f.idx]
		}
		bodies, observe := mk()
		steps, err := Exec(names, bodies, prefix, maxSteps)
		obs := ""
		if err == nil {
			obs = observe()
		}
		runs++
		if !visit(steps, obs, err) {
			return runs, false
		}
		// extend the stack with the decisions taken beyond the prefix (default = index 0)
		for i := len(stack); i < len(steps); i++ {
			stack = append(stack, frame{enabled: steps[i].Enabled, idx: 0})
		}
		// backtrack
		for len(stack) > 0 {
			top := &stack[len(stack)-1]
			if top.idx+1 < len(top.enabled) {
				top.idx++
				break
			}
			stack = stack[:len(stack)-1]
		}
		if len(stack) == 0 {
			return runs, true
		}
		if runs >= maxRuns {
			return runs, false
		}
	}
}
