// Package kty is the Go side of coq/Kafka/KafkaTy.v: wire types (`ty`) and values (`kv`) of the
// Kafka dissector, obtained by reflection
//   - from the dissector's own payload structs (ImplTy / ImplVal: what decode.go's decodeFuncOf does
//     with a Go type, mirrored at the type level), and
//   - from github.com/segmentio/kafka-go/protocol message structs and their `kafka:"..."` tags
//     (SpecTy: the independent description of the wire format).
//
// Printers produce Coq terms and JSON.  Constructs that are not understood are printed as
// TUnsupported, never guessed.
package kty

import (
	"encoding/hex"
	"fmt"
	"io"
	"reflect"
	"strconv"
	"strings"
)

// Ty kinds: bool i8 i16 i32 i64 str bytes arr struct record unsupported
// spec only: cstr cbytes carr tags (flexible versions)
type Ty struct {
	K      string
	Elem   *Ty
	Fields []Field
	Null   bool   // spec: nullable on the wire (null is reported as empty)
	Note   string // unsupported: why
}

type Field struct {
	Name string
	T    Ty
}

// CoqString is a Coq string literal (non-printable characters replaced).
func CoqString(s string) string { return coqString(s) }

func coqString(s string) string {
	var b strings.Builder
	b.WriteByte('"')
	for _, r := range s {
		if r == '"' {
			b.WriteString(`""`)
		} else if r < 32 || r > 126 {
			b.WriteByte('?')
		} else {
			b.WriteRune(r)
		}
	}
	b.WriteByte('"')
	return b.String()
}

// Coq prints the type as a term of KafkaTy.ty.
func (t Ty) Coq() string {
	switch t.K {
	case "bool":
		return "TBool"
	case "i8":
		return "TI8"
	case "i16":
		return "TI16"
	case "i32":
		return "TI32"
	case "i64":
		return "TI64"
	case "str":
		return "TStr"
	case "bytes":
		return "TBytes"
	case "cstr":
		return "TCStr"
	case "cbytes":
		return "TCBytes"
	case "tags":
		return "TTags"
	case "record":
		return "TRecordV0"
	case "arr":
		return "(TArr " + t.Elem.Coq() + ")"
	case "carr":
		return "(TCArr " + t.Elem.Coq() + ")"
	case "struct":
		fs := make([]string, len(t.Fields))
		for i, f := range t.Fields {
			fs[i] = "(" + coqString(f.Name) + "%string, " + f.T.Coq() + ")"
		}
		return "(TStruct [" + strings.Join(fs, "; ") + "])"
	}
	return "TUnsupported"
}

// JSON prints the type for the Python side.
func (t Ty) JSON() string {
	switch t.K {
	case "arr", "carr":
		return fmt.Sprintf(`{"k":%q,"e":%s,"null":%v}`, t.K, t.Elem.JSON(), t.Null)
	case "struct":
		fs := make([]string, len(t.Fields))
		for i, f := range t.Fields {
			fs[i] = fmt.Sprintf(`[%q,%s]`, f.Name, f.T.JSON())
		}
		return `{"k":"struct","f":[` + strings.Join(fs, ",") + `]}`
	case "unsupported":
		return fmt.Sprintf(`{"k":"unsupported","note":%q}`, t.Note)
	}
	return fmt.Sprintf(`{"k":%q,"null":%v}`, t.K, t.Null)
}

var readerFrom = reflect.TypeOf((*io.ReaderFrom)(nil)).Elem()
var writerTo = reflect.TypeOf((*io.WriterTo)(nil)).Elem()

func jsonName(f reflect.StructField) string {
	if tag, ok := f.Tag.Lookup("json"); ok {
		n := strings.Split(tag, ",")[0]
		if n != "" && n != "-" {
			return n
		}
	}
	return f.Name
}

// ImplTy mirrors kafka/decode.go decodeFuncOf + structDecodeFuncOf + protocol.go makeTypes for a
// payload struct type of the dissector.  The dissector's structs carry no `kafka` tags: every
// field then gets the implicit tag (min=-1,max=-1,no tag id), the single message type has
// version -1 and is not flexible, and every exported field is decoded in declaration order.
// A struct that does carry a `kafka` tag would be version-filtered; that is not modelled and is
// reported as unsupported.
func ImplTy(t reflect.Type) Ty {
	if reflect.PtrTo(t).Implements(readerFrom) {
		return Ty{K: "unsupported", Note: "io.ReaderFrom " + t.String()}
	}
	switch t.Kind() {
	case reflect.Bool:
		return Ty{K: "bool"}
	case reflect.Int8:
		return Ty{K: "i8"}
	case reflect.Int16:
		return Ty{K: "i16"}
	case reflect.Int32:
		return Ty{K: "i32"}
	case reflect.Int64:
		return Ty{K: "i64"}
	case reflect.String:
		return Ty{K: "str"}
	case reflect.Struct:
		if t.Name() == "RecordV0" && strings.HasSuffix(t.PkgPath(), "extensions/kafka") {
			return Ty{K: "record"}
		}
		var fs []Field
		for i := 0; i < t.NumField(); i++ {
			f := t.Field(i)
			if f.PkgPath != "" && f.Name != "_" {
				continue
			}
			if _, ok := f.Tag.Lookup("kafka"); ok {
				return Ty{K: "unsupported", Note: "kafka struct tag on " + t.String() + "." + f.Name}
			}
			fs = append(fs, Field{jsonName(f), ImplTy(f.Type)})
		}
		return Ty{K: "struct", Fields: fs}
	case reflect.Slice:
		if t.Elem().Kind() == reflect.Uint8 {
			return Ty{K: "bytes"}
		}
		e := ImplTy(t.Elem())
		return Ty{K: "arr", Elem: &e}
	}
	return Ty{K: "unsupported", Note: t.String()}
}

// Val is a decoded value (kv in Coq).  K: bool int str bytes arr struct
type Val struct {
	K     string
	B     bool
	I     int64
	W     int // width of an int in bytes; 0 = varint
	S     []byte
	A     []Val
	Names []string
	Null  bool // a nil slice: the wire's null array (an empty array is a non-nil slice of length 0)
}

// ImplVal reads a payload value of the dissector by reflection (not through JSON).
func ImplVal(v reflect.Value) Val {
	t := v.Type()
	switch t.Kind() {
	case reflect.Bool:
		return Val{K: "bool", B: v.Bool()}
	case reflect.Int8, reflect.Int16, reflect.Int32, reflect.Int64, reflect.Int:
		return Val{K: "int", I: v.Int(), W: int(t.Size())}
	case reflect.String:
		return Val{K: "str", S: []byte(v.String())}
	case reflect.Struct:
		out := Val{K: "struct"}
		for i := 0; i < t.NumField(); i++ {
			f := t.Field(i)
			if f.PkgPath != "" && f.Name != "_" {
				continue
			}
			out.Names = append(out.Names, jsonName(f))
			fv := ImplVal(v.Field(i))
			if fv.K == "int" && fv.W == 8 && (t.Name() == "RecordV0" || t.Name() == "RecordHeader") {
				fv.W = 0 // a varint on the wire
			}
			out.A = append(out.A, fv)
		}
		return out
	case reflect.Slice:
		if t.Elem().Kind() == reflect.Uint8 {
			return Val{K: "bytes", S: append([]byte(nil), v.Bytes()...)}
		}
		out := Val{K: "arr", Null: v.IsNil()}
		for i := 0; i < v.Len(); i++ {
			out.A = append(out.A, ImplVal(v.Index(i)))
		}
		return out
	case reflect.Ptr, reflect.Interface:
		if v.IsNil() {
			return Val{K: "struct"}
		}
		return ImplVal(v.Elem())
	}
	return Val{K: "struct"}
}

func (v Val) JSON() string {
	switch v.K {
	case "bool":
		if v.B {
			return "true"
		}
		return "false"
	case "int":
		return "[" + strconv.Itoa(v.W) + "," + strconv.FormatInt(v.I, 10) + "]"
	case "str":
		return `{"s":"` + hex.EncodeToString(v.S) + `"}`
	case "bytes":
		return `{"b":"` + hex.EncodeToString(v.S) + `"}`
	case "arr":
		xs := make([]string, len(v.A))
		for i, x := range v.A {
			xs[i] = x.JSON()
		}
		if v.Null {
			return `{"a":[],"null":true}`
		}
		return `{"a":[` + strings.Join(xs, ",") + `]}`
	}
	xs := make([]string, len(v.A))
	for i, x := range v.A {
		xs[i] = fmt.Sprintf(`[%q,%s]`, v.Names[i], x.JSON())
	}
	return `{"f":[` + strings.Join(xs, ",") + `]}`
}

// ---------------------------------------------------------------------------------------------
// spec side: segmentio/kafka-go/protocol structs

type specTag struct {
	min, max int16
	nullable bool
	compact  bool
	tagID    int
}

// ParseSpecTags parses a `kafka:"min=v0,max=v8,nullable|min=..."` tag (same grammar as the library).
func parseSpecTags(tag string) ([]specTag, error) {
	var out []specTag
	if tag == "-" {
		return nil, nil
	}
	for _, alt := range strings.Split(tag, "|") {
		if alt == "" {
			continue
		}
		st := specTag{min: -1, max: -1, tagID: -2}
		for _, o := range strings.Split(alt, ",") {
			switch {
			case strings.HasPrefix(o, "min=v"):
				n, err := strconv.Atoi(o[5:])
				if err != nil {
					return nil, err
				}
				st.min = int16(n)
			case strings.HasPrefix(o, "max=v"):
				n, err := strconv.Atoi(o[5:])
				if err != nil {
					return nil, err
				}
				st.max = int16(n)
			case o == "tag":
				st.tagID = -1
			case strings.HasPrefix(o, "tag="):
				n, err := strconv.Atoi(o[4:])
				if err != nil {
					return nil, err
				}
				st.tagID = n
			case o == "compact":
				st.compact = true
			case o == "nullable":
				st.nullable = true
			case o == "":
			default:
				return nil, fmt.Errorf("unknown tag option %q", o)
			}
		}
		out = append(out, st)
	}
	return out, nil
}

// SpecRange returns the version range and the first flexible version (-1: none) of a message struct.
func SpecRange(t reflect.Type) (min, max, flex int16, err error) {
	min, max, flex = -1, -1, -1
	for i := 0; i < t.NumField(); i++ {
		f := t.Field(i)
		if f.PkgPath != "" && f.Name != "_" {
			continue
		}
		tags, e := parseSpecTags(f.Tag.Get("kafka"))
		if e != nil {
			return 0, 0, 0, e
		}
		for _, tg := range tags {
			if min < 0 || tg.min < min {
				min = tg.min
			}
			if max < 0 || tg.max > max {
				max = tg.max
			}
			if tg.tagID > -2 && (flex < 0 || tg.min < flex) {
				flex = tg.min
			}
		}
	}
	return
}

// ActiveField describes one field of a spec struct that is on the wire at a version.
type ActiveField struct {
	Index    int
	Name     string
	Nullable bool
}

// SpecFields lists the wire fields of struct t at the version (declaration order; struct{} skipped;
// tagged optional fields are reported as an error: none of the modelled messages has one).
func SpecFields(t reflect.Type, version int16) ([]ActiveField, error) {
	var out []ActiveField
	for i := 0; i < t.NumField(); i++ {
		f := t.Field(i)
		if f.PkgPath != "" && f.Name != "_" {
			continue
		}
		if f.Type.Size() == 0 {
			continue
		}
		tags, err := parseSpecTags(f.Tag.Get("kafka"))
		if err != nil {
			return nil, err
		}
		for _, tg := range tags {
			if tg.min <= version && version <= tg.max {
				if tg.tagID >= -1 {
					return nil, fmt.Errorf("tagged field %s.%s not modelled", t, f.Name)
				}
				out = append(out, ActiveField{i, f.Name, tg.nullable})
				break
			}
		}
	}
	return out, nil
}

// RecordSetTy is the wire layout of a version-2 record set holding one batch (KIP-98).
func RecordSetTy() Ty {
	rec := Ty{K: "record"}
	f := func(n, k string) Field { return Field{n, Ty{K: k}} }
	return Ty{K: "struct", Fields: []Field{
		f("size", "i32"), f("baseOffset", "i64"), f("batchLength", "i32"), f("partitionLeaderEpoch", "i32"),
		f("magic", "i8"), f("crc", "i32"), f("attributes", "i16"), f("lastOffsetDelta", "i32"),
		f("firstTimestamp", "i64"), f("maxTimestamp", "i64"), f("producerId", "i64"),
		f("producerEpoch", "i16"), f("baseSequence", "i32"),
		{"records", Ty{K: "arr", Elem: &rec}},
	}}
}

// SpecTy is the wire type of a segmentio message struct at a version.  recordV is the record-set
// version used at this api version (1: message set, not expressible in ty; 2: record batch).
func SpecTy(t reflect.Type, version int16, flexible bool, nullable bool, recordV int) Ty {
	if reflect.PtrTo(t).Implements(writerTo) {
		if t.Name() == "RecordSet" {
			if recordV == 2 {
				return RecordSetTy()
			}
			return Ty{K: "unsupported", Note: "message set v0/v1 (size-delimited, no element count)"}
		}
		return Ty{K: "unsupported", Note: "io.WriterTo " + t.String()}
	}
	c := ""
	if flexible {
		c = "c"
	}
	switch t.Kind() {
	case reflect.Bool:
		return Ty{K: "bool"}
	case reflect.Int8:
		return Ty{K: "i8"}
	case reflect.Int16:
		return Ty{K: "i16"}
	case reflect.Int32:
		return Ty{K: "i32"}
	case reflect.Int64:
		return Ty{K: "i64"}
	case reflect.String:
		return Ty{K: c + "str", Null: nullable}
	case reflect.Struct:
		fs, err := SpecFields(t, version)
		if err != nil {
			return Ty{K: "unsupported", Note: err.Error()}
		}
		out := Ty{K: "struct"}
		for _, af := range fs {
			f := t.Field(af.Index)
			out.Fields = append(out.Fields, Field{f.Name, SpecTy(f.Type, version, flexible, af.Nullable, recordV)})
		}
		if flexible {
			out.Fields = append(out.Fields, Field{"_tags", Ty{K: "tags"}})
		}
		return out
	case reflect.Slice:
		if t.Elem().Kind() == reflect.Uint8 {
			return Ty{K: c + "bytes", Null: nullable}
		}
		e := SpecTy(t.Elem(), version, flexible, nullable, recordV)
		return Ty{K: c + "arr", Elem: &e, Null: nullable}
	}
	return Ty{K: "unsupported", Note: t.String()}
}
