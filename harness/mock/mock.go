// Package mock provides the TcpReader / TcpStream / Emitter stand-ins used by every harness
// command: a chunked reader with a chosen end-of-stream behaviour, a stream that counts
// items, and an emitter that collects what the dissector emits.
package mock

import (
	"errors"
	"io"
	"os"
	"sync"
	"sync/atomic"
	"time"

	"github.com/kubeshark/base/pkg/api"
)

// Tail says how the reader behaves once the chunks are exhausted.
type Tail int

const (
	TailEOF            Tail = iota // clean end of stream
	TailErrOnce                    // one read error, then EOF
	TailErrForever                 // a read error on every further read
	TailTimeoutOnce                // one time-out error (a net.Error whose Timeout() is true), then EOF
	TailTimeoutForever             // a time-out error on every further read
)

var ErrRead = errors.New("mock: read error")

type Reader struct {
	Chunks   [][]byte
	TailKind Tail
	pos      int
	errGiven bool
	Reads    int64 // number of Read calls (cost accounting)
	// OnRead, if set, runs at the start of every Read (a scheduling point: a goroutine that waits for a segment)
	OnRead func()

	Matcher     api.RequestResponseMatcher
	IsClient    bool
	Progress    *api.ReadProgress
	Parent      api.TcpStream
	TcpID       *api.TcpID
	CounterPair *api.CounterPair
	CaptureTime time.Time
	Emitter     api.Emitter
}

func (r *Reader) Read(p []byte) (int, error) {
	atomic.AddInt64(&r.Reads, 1)
	if r.OnRead != nil {
		r.OnRead()
	}
	for r.pos < len(r.Chunks) && len(r.Chunks[r.pos]) == 0 {
		r.pos++
	}
	if r.pos < len(r.Chunks) {
		c := r.Chunks[r.pos]
		n := copy(p, c)
		if n < len(c) {
			r.Chunks[r.pos] = c[n:]
		} else {
			r.pos++
		}
		if r.Progress != nil {
			r.Progress.Feed(n)
		}
		return n, nil
	}
	switch r.TailKind {
	case TailErrOnce:
		if !r.errGiven {
			r.errGiven = true
			return 0, ErrRead
		}
		return 0, io.EOF
	case TailErrForever:
		return 0, ErrRead
	case TailTimeoutOnce:
		if !r.errGiven {
			r.errGiven = true
			return 0, os.ErrDeadlineExceeded
		}
		return 0, io.EOF
	case TailTimeoutForever:
		return 0, os.ErrDeadlineExceeded
	}
	return 0, io.EOF
}

func (r *Reader) GetReqResMatcher() api.RequestResponseMatcher { return r.Matcher }
func (r *Reader) GetIsClient() bool                            { return r.IsClient }
func (r *Reader) GetReadProgress() *api.ReadProgress           { return r.Progress }
func (r *Reader) GetParent() api.TcpStream                     { return r.Parent }
func (r *Reader) GetTcpID() *api.TcpID                         { return r.TcpID }
func (r *Reader) GetCounterPair() *api.CounterPair             { return r.CounterPair }
func (r *Reader) GetCaptureTime() time.Time                    { return r.CaptureTime }
func (r *Reader) GetEmitter() api.Emitter                      { return r.Emitter }
func (r *Reader) GetIsClosed() bool                            { return false }

// Stream counts items; GetIndex / IncrementItemCount are individually atomic (the assumption
// C19 makes about the TcpStream implementation).
type Stream struct {
	PcapId    string
	itemCount int64
	Emittable int32
	Closed    int32 // what GetIsClosed reports (a stream can be closed while a half still emits buffered data)
	Protocol  *api.Protocol
	mu        sync.Mutex
}

func (t *Stream) SetProtocol(p *api.Protocol) { t.mu.Lock(); t.Protocol = p; t.mu.Unlock() }
func (t *Stream) SetAsEmittable()             { atomic.StoreInt32(&t.Emittable, 1) }
func (t *Stream) GetPcapId() string           { return t.PcapId }
func (t *Stream) GetIndex() int64             { return atomic.LoadInt64(&t.itemCount) }
func (t *Stream) GetIsIdentifyMode() bool     { return false }
func (t *Stream) GetReqResMatchers() []api.RequestResponseMatcher {
	return nil
}
func (t *Stream) GetIsTargeted() bool { return true }
func (t *Stream) GetIsClosed() bool   { return atomic.LoadInt32(&t.Closed) == 1 }
func (t *Stream) IncrementItemCount() { atomic.AddInt64(&t.itemCount, 1) }

// Collector is an Emitter that only collects (no index assignment); used where the real
// api.Emitting is not the subject.
type Collector struct {
	mu    sync.Mutex
	Items []*api.OutputChannelItem
}

func (c *Collector) Emit(item *api.OutputChannelItem) {
	c.mu.Lock()
	c.Items = append(c.Items, item)
	c.mu.Unlock()
}

// NewEmitting returns the real api.Emitting wired to a buffered channel and a drain function.
func NewEmitting(stream api.TcpStream, stats *api.AppStats, capacity int) (*api.Emitting, func() []*api.OutputChannelItem) {
	ch := make(chan *api.OutputChannelItem, capacity)
	e := &api.Emitting{AppStats: stats, Stream: stream, OutputChannel: ch}
	drain := func() []*api.OutputChannelItem {
		var out []*api.OutputChannelItem
		for {
			select {
			case it := <-ch:
				out = append(out, it)
			default:
				return out
			}
		}
	}
	return e, drain
}

// Split cuts data into chunks at the given sorted cut offsets.
func Split(data []byte, cuts []int) [][]byte {
	var out [][]byte
	prev := 0
	for _, c := range cuts {
		if c <= prev || c >= len(data) {
			continue
		}
		out = append(out, append([]byte(nil), data[prev:c]...))
		prev = c
	}
	if prev < len(data) {
		out = append(out, append([]byte(nil), data[prev:]...))
	}
	return out
}
