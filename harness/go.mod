module verif/harness

go 1.17

require github.com/kubeshark/base v0.0.0

require github.com/segmentio/kafka-go v0.4.38

require github.com/kubeshark/gopacket v1.1.20 // indirect

replace github.com/kubeshark/base => /repo
