module verif/harness

go 1.17

require (
	github.com/clbanning/mxj/v2 v2.5.5
	github.com/google/martian v2.1.0+incompatible
	github.com/kubeshark/base v0.0.0
	github.com/ohler55/ojg v1.14.5
	github.com/rs/zerolog v1.28.0
	github.com/segmentio/kafka-go v0.4.38
	golang.org/x/net v0.2.0
)

require (
	github.com/alecthomas/participle/v2 v2.0.0-alpha7 // indirect
	github.com/dlclark/regexp2 v1.4.0 // indirect
	github.com/fatih/camelcase v1.0.0 // indirect
	github.com/klauspost/compress v1.15.9 // indirect
	github.com/kubeshark/gopacket v1.1.20 // indirect
	github.com/mattn/go-colorable v0.1.13 // indirect
	github.com/mattn/go-isatty v0.0.16 // indirect
	github.com/mertyildiran/gqlparser/v2 v2.4.6 // indirect
	github.com/pierrec/lz4/v4 v4.1.15 // indirect
	golang.org/x/sys v0.2.0 // indirect
	golang.org/x/text v0.4.0 // indirect
)

replace github.com/kubeshark/base => /repo
