// Package kobs drives the real Kafka dissector through harness/mock and observes what it does:
// which payload struct it selects for an (api key, version, direction), and what it emits for a
// pair of byte streams.  Shared by vh-kafka and the schema translator.
package kobs

import (
	"bufio"
	"encoding/binary"
	"fmt"
	"io"
	"reflect"
	"sort"
	"sync"
	"time"

	"github.com/kubeshark/base/pkg/api"
	"github.com/kubeshark/base/pkg/extensions/kafka"

	"github.com/segmentio/kafka-go/protocol"
	"github.com/segmentio/kafka-go/protocol/apiversions"
	"github.com/segmentio/kafka-go/protocol/createtopics"
	"github.com/segmentio/kafka-go/protocol/deletetopics"
	"github.com/segmentio/kafka-go/protocol/fetch"
	"github.com/segmentio/kafka-go/protocol/listoffsets"
	"github.com/segmentio/kafka-go/protocol/metadata"
	"github.com/segmentio/kafka-go/protocol/produce"

	"verif/harness/kty"
	"verif/harness/mock"
)

// ---------------------------------------------------------------------------------------------
// running the dissector

type Half struct {
	Data []byte
	Cuts []int
	Tail mock.Tail
}

type Result struct {
	ClientOutcome string
	ServerOutcome string
	Items         []*api.OutputChannelItem
	Residue       []string
	Panic         string
}

func classify(err error) string {
	switch err {
	case nil:
		return "nil"
	case io.EOF:
		return "eof"
	case io.ErrUnexpectedEOF:
		return "ueof"
	}
	return "error"
}

var clientTcpID = &api.TcpID{SrcIP: "10.0.0.1", DstIP: "10.0.0.2", SrcPort: "40000", DstPort: "9092"}
var serverTcpID = &api.TcpID{SrcIP: "10.0.0.2", DstIP: "10.0.0.1", SrcPort: "9092", DstPort: "40000"}

// CaptureTime is fixed so that items are deterministic.
var CaptureTime = time.Unix(1700000000, 0).UTC()

func chunks(h Half) [][]byte {
	if len(h.Data) == 0 {
		return nil
	}
	return mock.Split(h.Data, h.Cuts)
}

// Run dissects the client half and the server half of one connection with the real dissector.
// order: "cs" client half first (as the test-suite does), "sc" server half first, "par" both in
// goroutines.  Every half runs inside recover().
func Run(client, server Half, order string, maxTry int) Result {
	d := kafka.NewDissector()
	matcher := d.NewResponseRequestMatcher()
	matcher.SetMaxTry(maxTry)
	stream := &mock.Stream{PcapId: "verif"}
	col := &mock.Collector{}
	cp := &api.CounterPair{}
	mk := func(h Half, isClient bool) *mock.Reader {
		id := serverTcpID
		if isClient {
			id = clientTcpID
		}
		return &mock.Reader{Chunks: chunks(h), TailKind: h.Tail, Matcher: matcher, IsClient: isClient,
			Progress: &api.ReadProgress{}, Parent: stream, TcpID: id, CounterPair: cp,
			CaptureTime: CaptureTime, Emitter: col}
	}
	var res Result
	var mu sync.Mutex
	half := func(h Half, isClient bool) {
		r := mk(h, isClient)
		out := ""
		func() {
			defer func() {
				if p := recover(); p != nil {
					out = "panic"
					mu.Lock()
					res.Panic = fmt.Sprint(p)
					mu.Unlock()
				}
			}()
			out = classify(d.Dissect(bufio.NewReader(r), r))
		}()
		mu.Lock()
		if isClient {
			res.ClientOutcome = out
		} else {
			res.ServerOutcome = out
		}
		mu.Unlock()
	}
	switch order {
	case "sc":
		half(server, false)
		half(client, true)
	case "par":
		var wg sync.WaitGroup
		wg.Add(2)
		go func() { defer wg.Done(); half(client, true) }()
		go func() { defer wg.Done(); half(server, false) }()
		wg.Wait()
	default:
		half(client, true)
		half(server, false)
	}
	res.Items = col.Items
	matcher.GetMap().Range(func(k, _ interface{}) bool {
		res.Residue = append(res.Residue, fmt.Sprint(k))
		return true
	})
	sort.Strings(res.Residue)
	return res
}

// ItemParts extracts the kafka.Request / kafka.Response of an emitted item.
func ItemParts(it *api.OutputChannelItem) (req kafka.Request, resp kafka.Response, ok bool) {
	defer func() {
		if recover() != nil {
			ok = false
		}
	}()
	req = it.Pair.Request.Payload.(kafka.KafkaPayload).Data.(*kafka.KafkaWrapper).Details.(kafka.Request)
	resp = it.Pair.Response.Payload.(kafka.KafkaPayload).Data.(*kafka.KafkaWrapper).Details.(kafka.Response)
	return req, resp, true
}

// ---------------------------------------------------------------------------------------------
// observing the layout selection

func be16(v int16) []byte { b := make([]byte, 2); binary.BigEndian.PutUint16(b, uint16(v)); return b }
func be32(v int32) []byte { b := make([]byte, 4); binary.BigEndian.PutUint32(b, uint32(v)); return b }

// HeaderOnlyRequest is a request frame with an empty client id and no body.
func HeaderOnlyRequest(apiKey, version int16, corr int32) []byte {
	var b []byte
	b = append(b, be32(10)...)
	b = append(b, be16(apiKey)...)
	b = append(b, be16(version)...)
	b = append(b, be32(corr)...)
	b = append(b, be16(0)...)
	return b
}

func HeaderOnlyResponse(corr int32) []byte {
	return append(be32(4), be32(corr)...)
}

// Observed is what the dissector did with a header-only exchange.
type Observed struct {
	ReqOutcome string       // outcome of the client half: "eof" when the request was accepted
	ReqType    reflect.Type // dynamic type of the registered request payload (nil: none registered / nil payload)
	Registered bool
	RespType   reflect.Type // dynamic type of the emitted response payload (nil: no item)
	RespOut    string
	Panic      string
	Name       string // api name reported in the item header
}

// Observe sends a header-only request and response through the real Dissect.
func Observe(apiKey, version int16) Observed {
	r := Run(Half{Data: HeaderOnlyRequest(apiKey, version, 7)}, Half{Data: HeaderOnlyResponse(7)}, "cs", 2)
	o := Observed{ReqOutcome: r.ClientOutcome, RespOut: r.ServerOutcome, Panic: r.Panic}
	if len(r.Items) == 1 {
		req, resp, ok := ItemParts(r.Items[0])
		if ok {
			o.Registered = true
			o.Name = req.ApiKeyName
			if req.Payload != nil {
				o.ReqType = reflect.TypeOf(req.Payload).Elem()
			}
			if resp.Payload != nil {
				o.RespType = reflect.TypeOf(resp.Payload).Elem()
			}
		}
	} else if len(r.Items) == 0 && len(r.Residue) == 0 && r.ClientOutcome == "eof" {
		// request registered and consumed by the response half without an item (skipped api)
		o.Registered = true
	} else if len(r.Residue) == 1 {
		o.Registered = true
	}
	return o
}

// ---------------------------------------------------------------------------------------------
// the independent description: segmentio message types

type SpecAPI struct {
	Key  int16
	Name string
	Req  reflect.Type
	Resp reflect.Type
}

// Supported lists the seven APIs of the property with their segmentio message structs.
var Supported = []SpecAPI{
	{0, "Produce", reflect.TypeOf(produce.Request{}), reflect.TypeOf(produce.Response{})},
	{1, "Fetch", reflect.TypeOf(fetch.Request{}), reflect.TypeOf(fetch.Response{})},
	{2, "ListOffsets", reflect.TypeOf(listoffsets.Request{}), reflect.TypeOf(listoffsets.Response{})},
	{3, "Metadata", reflect.TypeOf(metadata.Request{}), reflect.TypeOf(metadata.Response{})},
	{18, "ApiVersions", reflect.TypeOf(apiversions.Request{}), reflect.TypeOf(apiversions.Response{})},
	{19, "CreateTopics", reflect.TypeOf(createtopics.Request{}), reflect.TypeOf(createtopics.Response{})},
	{20, "DeleteTopics", reflect.TypeOf(deletetopics.Request{}), reflect.TypeOf(deletetopics.Response{})},
}

func SpecByKey(k int16) *SpecAPI {
	for i := range Supported {
		if Supported[i].Key == k {
			return &Supported[i]
		}
	}
	return nil
}

// RecordVersion is the record-set format in use at an api version (Kafka protocol guide):
// record batches (magic 2) from Produce v3 / Fetch v4, message sets before.
func RecordVersion(apiKey, version int16) int {
	switch apiKey {
	case 0:
		if version >= 3 {
			return 2
		}
		return 1
	case 1:
		if version >= 4 {
			return 2
		}
		return 1
	}
	return 2
}

// SpecSchema is the wire type of the body of (api, version, direction) according to segmentio.
func SpecSchema(a *SpecAPI, version int16, response bool) (kty.Ty, bool, error) {
	t := a.Req
	if response {
		t = a.Resp
	}
	min, max, flex, err := kty.SpecRange(t)
	if err != nil {
		return kty.Ty{}, false, err
	}
	if version < min || version > max {
		return kty.Ty{}, false, fmt.Errorf("version %d outside %d..%d", version, min, max)
	}
	flexible := flex >= 0 && version >= flex
	ty := kty.SpecTy(t, version, flexible, false, RecordVersion(a.Key, version))
	if flexible && ty.K == "struct" {
		// flexible versions: the message header ends with a tag buffer, which a reader that takes
		// the body to start after the client id / correlation id meets first
		ty.Fields = append([]kty.Field{{Name: "_headerTags", T: kty.Ty{K: "tags"}}}, ty.Fields...)
	}
	return ty, flexible, nil
}

// make sure the protocol package (encoder) is linked where only kobs is imported
var _ = protocol.ApiVersions
